fn main() {
    println!("cargo:rustc-cfg=transparencies_stretto_verif");
    println!("cargo:rustc-check-cfg=cfg(transparencies_stretto_verif)");
    println!("cargo:rustc-check-cfg=cfg(docsrs)");
    println!("cargo:rerun-if-changed=build.rs");
}
