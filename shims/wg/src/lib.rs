//! wg shim (see rt/src/wg.rs).
pub use stretto_verif_rt::wg::{AsyncWaitGroup, WaitGroup, WaitGroupFuture};
