//! crossbeam-channel shim: the channel / select model of stretto-verif-rt (see rt/src/chan.rs).
pub use stretto_verif_rt::chan::{
    after, bounded, never, tick, unbounded, Iter, Receiver, RecvError, RecvTimeoutError, SendError, SendTimeoutError, Sender, TryIter, TryRecvError, TrySendError,
};
pub use stretto_verif_rt::select;
