//! parking_lot shim: the lock models of stretto-verif-rt (see rt/src/sync.rs).
pub use stretto_verif_rt::sync::{Condvar, Mutex, MutexGuard, RwLock, RwLockReadGuard, RwLockWriteGuard};
pub fn const_mutex<T>(t: T) -> Mutex<T> {
    Mutex::new(t)
}
pub fn const_rwlock<T>(t: T) -> RwLock<T> {
    RwLock::new(t)
}
