//! async-io shim: only `Timer`, over the virtual clock (see rt/src/timer.rs).
pub use stretto_verif_rt::timer::Timer;
