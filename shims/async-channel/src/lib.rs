//! async-channel shim (see rt/src/achan.rs).
pub use stretto_verif_rt::achan::{bounded, unbounded, Receiver, Recv, RecvError, Send, SendError, Sender, TryRecvError, TrySendError};
