//! E-comp: exhaustive input enumeration of the sequential components (sketch, Bloom, TinyLFU, key
//! builders) against boring reference models.  Runs outside the scheduler at native speed.

use crate::report::Reported;
use serde_json::{json, Value};
use std::collections::hash_map::DefaultHasher;
use std::collections::HashSet;
use std::hash::{Hash, Hasher};
use std::sync::atomic::{AtomicUsize, Ordering};
use std::sync::{Arc, Mutex};
use stretto::verif::{VBloom, VRow, VSketch, VTinyLfu};

#[derive(Default)]
pub struct CompAcc {
    pub cases: u64,
    pub ops: u64,
    pub states: HashSet<u64>,
    pub nontrivial: HashSet<u64>,
    pub findings: Vec<(String, String)>,
}
impl CompAcc {
    pub fn state<T: Hash>(&mut self, t: &T, nontrivial: bool) {
        let mut h = DefaultHasher::new();
        t.hash(&mut h);
        let v = h.finish();
        self.states.insert(v);
        if nontrivial {
            self.nontrivial.insert(v);
        }
    }
    pub fn fail(&mut self, class: &str, msg: String) {
        if self.findings.len() < 4 {
            self.findings.push((class.to_string(), msg));
        }
    }
}

pub struct CompAgg {
    pub cases: u64,
    pub ops: u64,
    pub states: HashSet<u64>,
    pub nontrivial: HashSet<u64>,
    pub reported: Vec<Reported>,
    pub samples: Vec<Value>,
    pub machinery_errors: Vec<String>,
}

pub type CaseFn = fn(&Value, &mut CompAcc);

pub fn silence_panics() {
    use std::sync::Once;
    static O: Once = Once::new();
    O.call_once(|| {
        let prev = std::panic::take_hook();
        std::panic::set_hook(Box::new(move |info| {
            if std::env::var("SVCHECK_LOUD_PANICS").is_ok() {
                prev(info);
            }
            LAST.with(|l| {
                *l.borrow_mut() = Some(format!(
                    "{} @ {}",
                    info.payload().downcast_ref::<&str>().map(|s| s.to_string()).or_else(|| info.payload().downcast_ref::<String>().cloned()).unwrap_or_default(),
                    info.location().map(|l| format!("{}:{}", l.file(), l.line())).unwrap_or_default()
                ))
            });
        }));
    });
}
thread_local! { static LAST: std::cell::RefCell<Option<String>> = const { std::cell::RefCell::new(None) }; }

pub fn run_cases(property: &str, check: &str, cases: Vec<Value>, f: CaseFn, threads: usize) -> CompAgg {
    silence_panics();
    let cases = Arc::new(cases);
    let next = Arc::new(AtomicUsize::new(0));
    let agg = Arc::new(Mutex::new(CompAgg {
        cases: 0,
        ops: 0,
        states: HashSet::new(),
        nontrivial: HashSet::new(),
        reported: Vec::new(),
        samples: Vec::new(),
        machinery_errors: Vec::new(),
    }));
    let mut hs = Vec::new();
    for _ in 0..threads.max(1) {
        let (cases, next, agg) = (cases.clone(), next.clone(), agg.clone());
        let (property, check) = (property.to_string(), check.to_string());
        hs.push(std::thread::spawn(move || loop {
            let i = next.fetch_add(1, Ordering::SeqCst);
            if i >= cases.len() {
                break;
            }
            let case = &cases[i];
            let mut acc = CompAcc::default();
            let r = std::panic::catch_unwind(std::panic::AssertUnwindSafe(|| f(case, &mut acc)));
            if r.is_err() {
                let msg = LAST.with(|l| l.borrow_mut().take()).unwrap_or_default();
                acc.fail("panic", format!("component panicked: {}", msg));
            }
            let mut a = agg.lock().unwrap();
            a.cases += acc.cases.max(1);
            a.ops += acc.ops;
            a.states.extend(acc.states);
            a.nontrivial.extend(acc.nontrivial);
            for (class, msg) in acc.findings {
                a.reported.push(Reported {
                    property: property.clone(),
                    check: check.clone(),
                    class,
                    msg,
                    case_text: case.to_string(),
                    replay: json!({ "kind": "comp", "check": check, "case": case }),
                });
            }
            if a.samples.len() < 5 && i % 13 == 0 {
                a.samples.push(case.clone());
            }
        }));
    }
    for h in hs {
        let _ = h.join();
    }
    Arc::try_unwrap(agg).ok().unwrap().into_inner().unwrap()
}

fn splitmix(x: &mut u64) -> u64 {
    *x = x.wrapping_add(0x9E3779B97F4A7C15);
    let mut z = *x;
    z = (z ^ (z >> 30)).wrapping_mul(0xBF58476D1CE4E5B9);
    z = (z ^ (z >> 27)).wrapping_mul(0x94D049BB133111EB);
    z ^ (z >> 31)
}

// ------------------------------------------------------------------------------------------------
// C14: doorkeeper Bloom filter

pub const BLOOM_FAMILIES: [&str; 7] = ["seq", "shl32", "shl48", "high", "low", "max-minus", "mixed"];

fn family(name: &str, i: u64) -> u64 {
    match name {
        "seq" => i,
        "shl32" => i << 32,
        "shl48" => i << 48,
        "high" => (i.wrapping_mul(0x9E37)) << 40,
        "low" => i.wrapping_mul(0x9E3779B1) & 0xffff_ffff,
        "max-minus" => u64::MAX - i,
        _ => {
            let mut s = i.wrapping_mul(2).wrapping_add(1);
            splitmix(&mut s)
        }
    }
}

pub fn c14_cases(tier: &str) -> Vec<Value> {
    let caps: &[u64] = if tier == "quick" { &[1, 10, 64, 100, 1000] } else { &[1, 2, 10, 64, 100, 1000, 10_000] };
    let rates = [1e-9, 1e-6, 1e-4, 0.001, 0.01, 0.1, 0.5, 0.72, 0.9, 0.99];
    let mut v = Vec::new();
    for &cap in caps {
        for &rate in &rates {
            for fam in BLOOM_FAMILIES {
                v.push(json!({"kind": "no-false-negative", "cap": cap, "rate": rate, "family": fam}));
            }
            v.push(json!({"kind": "false-positive-rate", "cap": cap, "rate": rate, "probes": if tier == "quick" { 100_000 } else { 400_000 }}));
        }
    }
    v
}

pub fn c14_case(case: &Value, acc: &mut CompAcc) {
    let cap = case["cap"].as_u64().unwrap();
    let rate = case["rate"].as_f64().unwrap();
    acc.cases = 1;
    match case["kind"].as_str().unwrap() {
        "no-false-negative" => {
            let fam = case["family"].as_str().unwrap();
            let mut b = VBloom::new(cap as usize, rate);
            let n = cap.max(8);
            let mut added: Vec<u64> = Vec::new();
            let full_prefix = n <= 1000;
            for i in 0..n {
                let h = family(fam, i);
                // alternate the two insertion entry points
                if i % 2 == 0 {
                    b.add(h);
                } else {
                    let _ = b.contains_or_add(h);
                }
                acc.ops += 1;
                added.push(h);
                if !b.contains(h) {
                    acc.fail("bloom-false-negative", format!("hash {:#x} reported absent right after being added (family {}, element {})", h, fam, i));
                    return;
                }
                if full_prefix {
                    for (j, &p) in added.iter().enumerate() {
                        acc.ops += 1;
                        if !b.contains(p) {
                            acc.fail("bloom-false-negative", format!("hash {:#x} (element {}) reported absent after adding element {} (family {})", p, j, i, fam));
                            return;
                        }
                    }
                }
            }
            for &p in &added {
                acc.ops += 1;
                if !b.contains(p) {
                    acc.fail("bloom-false-negative", format!("hash {:#x} reported absent at the end (family {})", p, fam));
                    return;
                }
            }
            acc.state(&(cap, rate.to_bits(), fam, "full"), true);
            // contains_or_add must report an already added hash as present (false = not added now)
            if b.contains_or_add(added[0]) {
                acc.fail("bloom-contains-or-add", "contains_or_add returned true (=added) for a hash that is present".into());
            }
            // reset / clear empty the filter completely
            for (which, clear) in [("reset", false), ("clear", true)] {
                if clear {
                    b.clear()
                } else {
                    b.reset()
                }
                for &p in &added {
                    acc.ops += 1;
                    if b.contains(p) {
                        acc.fail("bloom-not-emptied", format!("after {}() hash {:#x} is still reported present", which, p));
                        return;
                    }
                }
                let mut s = 77u64;
                for _ in 0..20_000 {
                    let p = splitmix(&mut s);
                    acc.ops += 1;
                    if b.contains(p) {
                        acc.fail("bloom-not-emptied", format!("after {}() never-added hash {:#x} is reported present", which, p));
                        return;
                    }
                }
                acc.state(&(cap, rate.to_bits(), fam, which), true);
                // the emptied filter takes the very hash it was last asked about as a new one
                // (added[0] went through contains_or_add just before the reset / clear) ...
                if !b.contains_or_add(added[0]) {
                    acc.fail("bloom-not-emptied", format!("after {}() contains_or_add({:#x}) answers 'already present' on the emptied filter", which, added[0]));
                    return;
                }
                if !b.contains(added[0]) || b.contains_or_add(added[0]) {
                    acc.fail("bloom-false-negative", format!("after {}() hash {:#x} was added through contains_or_add but is reported absent", which, added[0]));
                    return;
                }
                // ... refill for the second round, alternating the entry points again, the last
                // call before the next reset / clear being contains_or_add of the first hash
                for (i, &p) in added.iter().enumerate() {
                    if i % 2 == 0 {
                        b.add(p);
                    } else {
                        let _ = b.contains_or_add(p);
                    }
                }
                let _ = b.contains_or_add(added[0]);
            }
        }
        _ => {
            let probes = case["probes"].as_u64().unwrap();
            // three add-sets: well mixed, sequential, high-bits-only; probes are always well mixed and disjoint
            // structured neighbours: add hashes whose low half is zero (well-mixed high half) or
            // well-mixed hashes, probe the never-added hashes that differ from an added one only in
            // a few low bits (+1, +2, +3) or only in the two top bits
            // (the mirror image, hashes with a zero high half probed at a flipped top bit, is not
            // checked: such hashes all share the base position by construction of this filter and
            // their strides overlap, so the unchanged filter reports 13 % of those probes present
            // at capacity 100 / rate 0.01; no Bloom filter bounds the rate for adversarial sets)
            // (target rates below 0.001 - 14 to 30 probes per hash - are left out of the neighbour
            // probes: in the 512-bit minimum filter the probes of one added hash wrap around its
            // stride cycle, and a probe hash that moves the base by half the filter lands in the same
            // cycle; the statement bounds the fraction over all never-added hashes, which the
            // well-mixed probes below measure for every rate)
            for (addfam, how, deltas) in [("high-only", "low", [1u64, 2, 3]), ("mixed", "low", [1, 2, 3]), ("mixed", "top", [1 << 63, 1 << 62, 3 << 62])] {
                if rate < 0.001 {
                    continue;
                }
                let mut b = VBloom::new(cap as usize, rate);
                let mut set = HashSet::new();
                for i in 0..cap {
                    let mut sd = i.wrapping_mul(2).wrapping_add(12345);
                    let x = splitmix(&mut sd);
                    let h = if addfam == "high-only" { x & !0xffff_ffffu64 } else { x };
                    b.add(h);
                    set.insert(h);
                    acc.ops += 1;
                }
                let (mut fp, mut m) = (0u64, 0u64);
                for &h in &set {
                    for d in deltas {
                        let p = if how == "low" { h.wrapping_add(d) } else { h ^ d };
                        if set.contains(&p) {
                            continue;
                        }
                        m += 1;
                        acc.ops += 1;
                        if b.contains(p) {
                            fp += 1;
                        }
                    }
                }
                let frac = fp as f64 / (m as f64).max(1.0);
                let allowed = 3.0 * rate + 0.005 + 2.0 / (m as f64).max(1.0);
                acc.state(&(cap, rate.to_bits(), addfam, how, fp), fp > 0);
                if frac > allowed {
                    acc.fail(
                        "bloom-false-positive-neighbours",
                        format!(
                            "capacity {} target rate {}: after adding {} distinct {} hashes, {} of the {} never-added hashes differing from an added one only in a few {} bits are reported present ({:.4} > allowed {:.4})",
                            cap, rate, set.len(), addfam, fp, m, how, frac, allowed
                        ),
                    );
                    return;
                }
            }
            for addfam in ["mixed", "seq", "shl48"] {
                let mut b = VBloom::new(cap as usize, rate);
                let mut set = HashSet::new();
                for i in 0..cap {
                    let h = family(addfam, i);
                    b.add(h);
                    set.insert(h);
                    acc.ops += 1;
                }
                let mut s = 0xfeed_beefu64;
                let mut fp = 0u64;
                let mut m = 0u64;
                while m < probes {
                    let p = splitmix(&mut s);
                    if set.contains(&p) {
                        continue;
                    }
                    m += 1;
                    acc.ops += 1;
                    if b.contains(p) {
                        fp += 1;
                    }
                }
                let frac = fp as f64 / m as f64;
                let allowed = 3.0 * rate + 1.0 / (cap as f64).max(1.0) * 0.0 + 0.005;
                acc.state(&(cap, rate.to_bits(), addfam, fp), fp > 0);
                if frac > allowed {
                    acc.fail(
                        "bloom-false-positive-rate",
                        format!(
                            "capacity {} target rate {}: after adding {} distinct hashes ({}), {} of {} never-added well-mixed hashes are reported present ({:.4} > allowed {:.4})",
                            cap, rate, cap, addfam, fp, m, frac, allowed
                        ),
                    );
                    return;
                }
            }
        }
    }
}

// ------------------------------------------------------------------------------------------------
// C13: count-min sketch / TinyLFU

pub fn c13_cases(tier: &str) -> Vec<Value> {
    let mut v = Vec::new();
    let widths: Vec<u64> = if tier == "quick" {
        (1..=16).chain([31, 32, 33, 63, 64, 65, 70]).collect()
    } else {
        (1..=70).chain([127, 128, 129, 1000, 1024, 4097]).collect()
    };
    let len = if tier == "quick" { 6 } else { 8 };
    for w in [1u64, 2, 3, 4, 8] {
        v.push(json!({"kind": "row", "width_bytes": w, "len": if tier == "quick" { 5 } else { 6 }}));
    }
    for &w in &widths {
        v.push(json!({"kind": "sketch-seq", "num_counters": w, "len": len}));
        v.push(json!({"kind": "sketch-long", "num_counters": w}));
        v.push(json!({"kind": "tiny", "num_counters": w, "len": if w <= 16 { len.min(6) } else { 4 }}));
        // (wide estimators: fewer sequences, the batch sizes around the window length matter)
        v.push(json!({"kind": "tiny-batch", "num_counters": w, "len": if w > 70 { 2 } else if tier == "quick" { 4 } else { 5 }}));
        v.push(json!({"kind": "tiny-hot", "num_counters": w}));
    }
    v
}

fn sketch_keys(mask: u64, seeds: [u64; 4]) -> [u64; 4] {
    // k0 and k1 collide in every row (they differ only above the mask); k2 differs from k0 in the
    // lowest bit (never collides with it); k3 collides with k0 in row 0 only if the mask allows
    let k0 = 0u64;
    let k1 = mask.wrapping_add(1) | (1 << 63);
    let k2 = 1u64;
    let k3 = (seeds[0] ^ seeds[1]) | (1 << 62);
    [k0, k1, k2, k3]
}

fn c13_row(case: &Value, acc: &mut CompAcc) {
    let w = case["width_bytes"].as_u64().unwrap();
    let len = case["len"].as_u64().unwrap() as u32;
    let n = 2 * w; // counters
    let idxs: Vec<u64> = if n <= 4 { (0..n).collect() } else { vec![0, 1, n / 2, n - 1] };
    let total = (idxs.len() as u64 + 1).pow(len); // extra symbol = reset
    for code in 0..total {
        acc.cases += 1;
        let mut row = VRow::new(w);
        let mut model = vec![0u8; n as usize];
        let mut c = code;
        for _ in 0..len {
            let sym = (c % (idxs.len() as u64 + 1)) as usize;
            c /= idxs.len() as u64 + 1;
            acc.ops += 1;
            if sym == idxs.len() {
                row.reset();
                model.iter_mut().for_each(|x| *x >>= 1);
            } else {
                let i = idxs[sym];
                row.increment(i);
                if model[i as usize] < 15 {
                    model[i as usize] += 1;
                }
            }
            for j in 0..n {
                if row.get(j) != model[j as usize] {
                    acc.fail("row-counter", format!("row width {}B: after sequence code {} counter {} is {} expected {}", w, code, j, row.get(j), model[j as usize]));
                    return;
                }
            }
        }
        acc.state(&(w, &model), model.iter().any(|x| *x > 0));
        row.clear();
        if (0..n).any(|j| row.get(j) != 0) {
            acc.fail("row-clear", format!("row width {}B not zero after clear", w));
            return;
        }
    }
    // saturation
    let mut row = VRow::new(w);
    for k in 0..40 {
        row.increment(n - 1);
        let exp = (k + 1).min(15) as u8;
        if row.get(n - 1) != exp {
            acc.fail("row-saturation", format!("counter after {} increments is {} expected {}", k + 1, row.get(n - 1), exp));
            return;
        }
        if n > 1 && row.get(n - 2) != 0 {
            acc.fail("row-neighbour", "incrementing a counter changed its neighbour".into());
            return;
        }
    }
}

fn c13_sketch_seq(case: &Value, acc: &mut CompAcc) {
    let nc = case["num_counters"].as_u64().unwrap();
    let len = case["len"].as_u64().unwrap() as u32;
    let probe = match VSketch::new(nc) {
        Ok(s) => s,
        Err(e) => {
            acc.fail("sketch-new", format!("CountMinSketch::new({}) failed: {}", nc, e));
            return;
        }
    };
    let (seeds, mask, _wb, _) = probe.parts();
    let keys = sketch_keys(mask, seeds);
    let nsym = 6u64; // 4 keys, reset, clear
    let total = nsym.pow(len);
    for code in 0..total {
        acc.cases += 1;
        let mut s = VSketch::new(nc).unwrap();
        let mut counts = [0u64; 4];
        let mut c = code;
        for k in keys {
            if s.estimate(k) != 0 {
                acc.fail("sketch-fresh-nonzero", format!("num_counters {}: fresh sketch estimates {} for {:#x}", nc, s.estimate(k), k));
                return;
            }
        }
        for _ in 0..len {
            let sym = c % nsym;
            c /= nsym;
            acc.ops += 1;
            match sym {
                4 => {
                    let (_, _, _, before) = s.parts();
                    s.reset();
                    let (_, _, _, after) = s.parts();
                    for (rb, ra) in before.iter().zip(after.iter()) {
                        for (b, a) in rb.iter().zip(ra.iter()) {
                            if *a != *b >> 1 {
                                acc.fail("sketch-reset-not-halving", format!("num_counters {}: a counter went {} -> {} at reset (expected {})", nc, b, a, b >> 1));
                                return;
                            }
                        }
                    }
                    counts.iter_mut().for_each(|x| *x = 0);
                    // after a reset the recorded counts restart; halved history may only add
                    continue;
                }
                5 => {
                    s.clear();
                    counts.iter_mut().for_each(|x| *x = 0);
                    for k in keys {
                        if s.estimate(k) != 0 {
                            acc.fail("sketch-clear-nonzero", format!("num_counters {}: estimate after clear is {}", nc, s.estimate(k)));
                            return;
                        }
                    }
                    continue;
                }
                i => {
                    s.increment(keys[i as usize]);
                    counts[i as usize] += 1;
                }
            }
            for (i, k) in keys.iter().enumerate() {
                let e = s.estimate(*k);
                if e < counts[i].min(15) as i64 {
                    acc.fail(
                        "sketch-undercount",
                        format!("num_counters {}: key {:#x} recorded {} times since the last reset but estimated {} (sequence code {})", nc, k, counts[i], e, code),
                    );
                    return;
                }
                if e > 15 {
                    acc.fail("sketch-over-limit", format!("num_counters {}: estimate {} exceeds the 4-bit limit", nc, e));
                    return;
                }
            }
        }
        let (_, _, _, ctrs) = s.parts();
        acc.state(&(nc, ctrs), counts.iter().any(|c| *c > 0));
    }
}

fn c13_sketch_long(case: &Value, acc: &mut CompAcc) {
    let nc = case["num_counters"].as_u64().unwrap();
    let mut s = match VSketch::new(nc) {
        Ok(s) => s,
        Err(e) => {
            acc.fail("sketch-new", format!("CountMinSketch::new({}) failed: {}", nc, e));
            return;
        }
    };
    let (_, mask, wb, ctrs) = s.parts();
    if wb == 0 || ctrs.iter().any(|r| r.is_empty()) || (mask + 1) as usize != ctrs[0].len() {
        acc.fail("sketch-geometry", format!("num_counters {}: mask {} but rows hold {} counters ({} bytes)", nc, mask, ctrs[0].len(), wb));
        return;
    }
    acc.cases = 1;
    // arbitrary hashes stay in range; saturation instead of wrapping
    let mut x = 99u64;
    let mut hs: Vec<u64> = vec![0, 1, u64::MAX, 1 << 63, mask, mask + 1, !mask];
    for _ in 0..64 {
        hs.push(splitmix(&mut x));
    }
    for &h in &hs {
        for k in 0..40u64 {
            s.increment(h);
            acc.ops += 1;
            let e = s.estimate(h);
            if e < (k + 1).min(15) as i64 || e > 15 {
                acc.fail("sketch-saturation", format!("num_counters {}: hash {:#x} incremented {} times estimates {}", nc, h, k + 1, e));
                return;
            }
        }
    }
    let (_, _, _, before) = s.parts();
    s.reset();
    let (_, _, _, after) = s.parts();
    if before.iter().flatten().zip(after.iter().flatten()).any(|(b, a)| *a != *b >> 1) {
        acc.fail("sketch-reset-not-halving", format!("num_counters {}: reset did not halve every counter", nc));
        return;
    }
    acc.state(&(nc, after), true);
    s.clear();
    if hs.iter().any(|h| s.estimate(*h) != 0) {
        acc.fail("sketch-clear-nonzero", format!("num_counters {}: non-zero estimate after clear", nc));
    }
}

fn c13_tiny(case: &Value, acc: &mut CompAcc) {
    let nc = case["num_counters"].as_u64().unwrap() as usize;
    let len = case["len"].as_u64().unwrap() as u32;
    let probe = match VTinyLfu::new(nc) {
        Ok(t) => t,
        Err(e) => {
            acc.fail("tiny-new", format!("TinyLFU::new({}) failed: {}", nc, e));
            return;
        }
    };
    let sn = probe.snap();
    if sn.samples != nc {
        acc.fail("tiny-samples", format!("TinyLFU::new({}) ages after {} accesses", nc, sn.samples));
        return;
    }
    // the 4 sketch keys + a hash whose doorkeeper probes all fall into the LAST word of the filter
    let k4 = sketch_keys(sn.mask, sn.seeds);
    let keys = [k4[0], k4[1], k4[2], k4[3], u64::MAX];
    // every sequence over 5 keys + clear, of length `len`, repeated until at least 2 resets happened
    let nsym = 6u64;
    let total = nsym.pow(len);
    for code in 0..total {
        acc.cases += 1;
        let mut t = VTinyLfu::new(nc).unwrap();
        let mut counts = [0u64; 5];
        let mut w = 0usize;
        let mut resets = 0;
        let mut seq = Vec::new();
        let mut c = code;
        for _ in 0..len {
            seq.push((c % nsym) as usize);
            c /= nsym;
        }
        let rounds = if nc <= 8 { (2 * nc) / (len as usize) + 2 } else { 1 };
        for k in keys {
            if t.estimate(k) != 0 {
                acc.fail("tiny-fresh-nonzero", format!("num_counters {}: fresh estimator estimates {}", nc, t.estimate(k)));
                return;
            }
        }
        for _round in 0..rounds {
            for &sym in &seq {
                acc.ops += 1;
                if sym == 5 {
                    t.clear();
                    counts = [0; 5];
                    w = 0;
                    for k in keys {
                        if t.estimate(k) != 0 {
                            acc.fail("tiny-clear-nonzero", format!("num_counters {}: estimate {} after clear", nc, t.estimate(k)));
                            return;
                        }
                    }
                    continue;
                }
                let before: Vec<i64> = keys.iter().map(|k| t.sketch_estimate(*k)).collect();
                // an access that only enters the doorkeeper leaves the counters as they are
                let doorkeeper_only = !t.doorkeeper_contains(keys[sym]);
                t.increment(keys[sym]);
                counts[sym] += 1;
                w += 1;
                if w >= nc {
                    // aging boundary: counters halved, doorkeeper emptied, window restarted
                    w = 0;
                    resets += 1;
                    counts = [0; 5];
                    let sn = t.snap();
                    if sn.w != 0 {
                        acc.fail("tiny-window-not-restarted", format!("num_counters {}: after {} recorded accesses w = {}", nc, nc, sn.w));
                        return;
                    }
                    for (i, k) in keys.iter().enumerate() {
                        if t.doorkeeper_contains(*k) {
                            acc.fail("tiny-doorkeeper-not-emptied", format!("num_counters {}: doorkeeper still holds {:#x} after the aging reset", nc, k));
                            return;
                        }
                        let a = t.sketch_estimate(*k);
                        if a < before[i] >> 1 || a > (before[i] + 1) >> 1 || (doorkeeper_only && a != before[i] >> 1) {
                            acc.fail(
                                "tiny-reset-not-halving",
                                format!("num_counters {}: sketch estimate of {:#x} went {} -> {} across the aging reset (expected {} or {})", nc, k, before[i], a, before[i] >> 1, (before[i] + 1) >> 1),
                            );
                            return;
                        }
                    }
                } else if t.snap().w != w {
                    acc.fail("tiny-window", format!("num_counters {}: window counter {} expected {}", nc, t.snap().w, w));
                    return;
                }
                for (i, k) in keys.iter().enumerate() {
                    let e = t.estimate(*k);
                    if e < counts[i].min(16) as i64 {
                        acc.fail(
                            "tiny-undercount",
                            format!("num_counters {}: key {:#x} recorded {} times since the last reset but estimated {} (sequence {:?})", nc, k, counts[i], e, seq),
                        );
                        return;
                    }
                    if e > 16 {
                        acc.fail("tiny-over-limit", format!("num_counters {}: estimate {} exceeds 15 + 1", nc, e));
                        return;
                    }
                }
            }
        }
        let sn = t.snap();
        acc.state(&(nc, sn.w, sn.counters), resets > 0);
    }
}

/// Batched recording (`increments`, the path the policy worker uses for every flushed lookup batch)
/// is the same as recording the hashes one by one: the aging reset happens exactly after every
/// num_counters-th access, also when that access lies in the middle of a batch.
fn c13_tiny_batch(case: &Value, acc: &mut CompAcc) {
    let nc = case["num_counters"].as_u64().unwrap() as usize;
    let len = case["len"].as_u64().unwrap() as u32;
    let probe = match VTinyLfu::new(nc) {
        Ok(t) => t,
        Err(e) => {
            acc.fail("tiny-new", format!("TinyLFU::new({}) failed: {}", nc, e));
            return;
        }
    };
    let sn = probe.snap();
    let keys = sketch_keys(sn.mask, sn.seeds);
    let mut sizes: Vec<usize> = if nc > 70 { vec![nc - 1, nc, nc + 1, 2 * nc + 1, 64, 1000] } else { vec![2, 3, 5, 7, nc.saturating_sub(1), nc, nc + 1, 2 * nc + 1, 48, 64] };
    sizes.retain(|b| *b >= 1);
    sizes.sort();
    sizes.dedup();
    let total = 4u64.pow(len);
    for code in 0..total {
        let mut seq = Vec::new();
        let mut c = code;
        for _ in 0..len {
            seq.push((c % 4) as usize);
            c /= 4;
        }
        let target = 2 * nc + len as usize + 1;
        let long: Vec<u64> = seq.iter().cycle().take(target.max(len as usize)).map(|i| keys[*i]).collect();
        for &b in &sizes {
            acc.cases += 1;
            let mut one = VTinyLfu::new(nc).unwrap();
            let mut bat = VTinyLfu::new(nc).unwrap();
            if one.snap().seeds != bat.snap().seeds {
                acc.fail("tiny-seeds-differ", "two estimators of the same width got different seeds: the comparison needs the deterministic clock".into());
                return;
            }
            let mut resets = 0;
            let mut fed = 0usize;
            for chunk in long.chunks(b) {
                for h in chunk {
                    one.increment(*h);
                    fed += 1;
                    if fed % nc == 0 {
                        resets += 1;
                    }
                }
                bat.increments(chunk.to_vec());
                acc.ops += chunk.len() as u64;
                let (so, sb) = (one.snap(), bat.snap());
                let same_dk = keys.iter().all(|k| one.doorkeeper_contains(*k) == bat.doorkeeper_contains(*k));
                if so.w != sb.w || so.counters != sb.counters || !same_dk {
                    let eo: Vec<i64> = keys.iter().map(|k| one.estimate(*k)).collect();
                    let eb: Vec<i64> = keys.iter().map(|k| bat.estimate(*k)).collect();
                    acc.fail(
                        "tiny-batch-differs",
                        format!(
                            "num_counters {}: recording {:?}... in batches of {} leaves window {} / estimates {:?}, one by one window {} / estimates {:?}: the aging reset is not applied after exactly every num_counters-th access",
                            nc, seq, b, sb.w, eb, so.w, eo
                        ),
                    );
                    return;
                }
            }
            let so = one.snap();
            acc.state(&(nc, b, so.w, so.counters), resets > 0);
        }
    }
}

/// Skewed workloads: one hot key recorded far beyond the counter limit inside one aging window,
/// a few cold keys in between.  After EVERY recorded access - also those of a saturated key - the
/// window position advances by one; the reset falls exactly on every num_counters-th access, the
/// doorkeeper is emptied there, and between resets the hot key never estimates less than
/// min(its count, 16).
fn c13_tiny_hot(case: &Value, acc: &mut CompAcc) {
    let nc = case["num_counters"].as_u64().unwrap() as usize;
    let mut t = match VTinyLfu::new(nc) {
        Ok(t) => t,
        Err(e) => {
            acc.fail("tiny-new", format!("TinyLFU::new({}) failed: {}", nc, e));
            return;
        }
    };
    let sn = t.snap();
    let k4 = sketch_keys(sn.mask, sn.seeds);
    let (hot, cold) = (k4[0], [k4[2], k4[3], u64::MAX]);
    for period in [1usize, 5, 19] {
        t.clear();
        let (mut w, mut hot_count) = (0usize, 0u64);
        for i in 0..(3 * nc + 7) {
            acc.cases += 1;
            acc.ops += 1;
            let k = if period > 1 && i % period == period - 1 { cold[(i / period) % 3] } else { hot };
            t.increment(k);
            w += 1;
            if k == hot {
                hot_count += 1;
            }
            if w >= nc {
                w = 0;
                hot_count = 0;
                if t.doorkeeper_contains(hot) || cold.iter().any(|c| t.doorkeeper_contains(*c)) {
                    acc.fail("tiny-doorkeeper-not-emptied", format!("num_counters {}: the doorkeeper is not empty after access {} (hot-key workload, one cold key every {})", nc, i + 1, period));
                    return;
                }
            }
            let got = t.snap().w;
            if got != w {
                acc.fail("tiny-window", format!("num_counters {}: after {} recorded accesses (hot key every access but one in {}) the window position is {}, expected {}", nc, i + 1, period, got, w));
                return;
            }
            let e = t.estimate(hot);
            if e < hot_count.min(16) as i64 || e > 16 {
                acc.fail("tiny-undercount", format!("num_counters {}: hot key recorded {} times since the last reset but estimated {}", nc, hot_count, e));
                return;
            }
        }
        let so = t.snap();
        acc.state(&(nc, period, so.w, so.counters), true);
    }
}

pub fn c13_case(case: &Value, acc: &mut CompAcc) {
    match case["kind"].as_str().unwrap() {
        "tiny-hot" => c13_tiny_hot(case, acc),
        "tiny-batch" => c13_tiny_batch(case, acc),
        "row" => c13_row(case, acc),
        "sketch-seq" => c13_sketch_seq(case, acc),
        "sketch-long" => c13_sketch_long(case, acc),
        _ => c13_tiny(case, acc),
    }
}

// ------------------------------------------------------------------------------------------------
// C18 (component part): key builders

pub fn c18_cases(_tier: &str) -> Vec<Value> {
    let mut v: Vec<Value> = ["u8", "i8", "u16", "i16", "bool", "u32", "i32", "u64", "i64", "usize", "isize", "string"].iter().map(|t| json!({"type": t})).collect();
    v.push(json!({"type": "string-concurrent"}));
    v
}

/// The default key builder shared by two threads from its very first use (what two clients of a
/// fresh cache do): every schedule of their first `build_key` calls up to preemption bound 2
/// (atomics of the crate are scheduling points); whatever a thread was answered for a key is what
/// the builder answers for that key ever after, as `String` and as `&str`.
fn c18_concurrent(acc: &mut CompAcc) {
    use std::sync::Arc;
    use stretto::{DefaultKeyBuilder, KeyBuilder};
    use stretto_verif_rt as rt;
    for (ka, kb) in [("alpha", "beta"), ("alpha", "alpha"), ("", "x")] {
        for calls in [1usize, 2] {
            acc.cases += 1;
            let out = rt::explore(
                rt::ExploreCfg { bound: 2, ..Default::default() },
                Arc::new(move || {
                    let b = Arc::new(DefaultKeyBuilder::<String>::default());
                    let hs: Vec<_> = [ka, kb]
                        .into_iter()
                        .map(|k| {
                            let b = b.clone();
                            rt::thread::spawn(move || (0..calls).map(|_| b.build_key(k)).collect::<Vec<_>>())
                        })
                        .collect();
                    let got: Vec<Vec<(u64, u64)>> = hs.into_iter().map(|h| h.join().unwrap()).collect();
                    for (k, seen) in [ka, kb].into_iter().zip(got) {
                        let now = b.build_key(k);
                        let owned = b.build_key(&k.to_string());
                        for s in seen {
                            assert!(s == now && s == owned, "key {:?} was mapped to {:?} by a client thread, the builder now maps it to {:?} / {:?}", k, s, now, owned);
                        }
                    }
                }),
            );
            acc.ops += out.executions;
            if let Some(v) = out.violations.first() {
                acc.fail("keybuilder-unstable-under-concurrency", format!("{} ({} of {} schedules)", v.msg, out.violations.len(), out.executions));
                return;
            }
            if !out.complete {
                acc.fail("machinery", format!("exploration incomplete: {:?}", out.cap));
                return;
            }
            acc.state(&(ka, kb, calls, out.executions), out.executions > 1);
        }
    }
    // the same with a key type whose `Hash` impl yields to the scheduler (user code runs inside
    // hash_index / hash_conflict: another thread may use the builder in between), after the
    // builder has already served a different key
    #[derive(PartialEq, Eq, Clone)]
    struct YieldingKey(String);
    impl std::hash::Hash for YieldingKey {
        fn hash<H: std::hash::Hasher>(&self, h: &mut H) {
            rt::thread::yield_now();
            self.0.hash(h)
        }
    }
    for (ka, kb) in [("alpha", "alpha"), ("alpha", "beta")] {
        acc.cases += 1;
        let out = rt::explore(
            rt::ExploreCfg { bound: 2, ..Default::default() },
            Arc::new(move || {
                let b = Arc::new(DefaultKeyBuilder::<YieldingKey>::default());
                let _ = b.build_key(&YieldingKey("zeta".into()));
                let hs: Vec<_> = [ka, kb]
                    .into_iter()
                    .map(|k| {
                        let b = b.clone();
                        rt::thread::spawn(move || b.build_key(&YieldingKey(k.to_string())))
                    })
                    .collect();
                let got: Vec<(u64, u64)> = hs.into_iter().map(|h| h.join().unwrap()).collect();
                for (k, seen) in [ka, kb].into_iter().zip(got) {
                    let now = b.build_key(&YieldingKey(k.to_string()));
                    let again = b.build_key(&YieldingKey(k.to_string()));
                    assert!(seen == now && now == again, "key {:?} was mapped to {:?} by a client thread, the builder now maps it to {:?} / {:?}", k, seen, now, again);
                }
            }),
        );
        acc.ops += out.executions;
        if let Some(v) = out.violations.first() {
            acc.fail("keybuilder-unstable-under-concurrency", format!("{} ({} of {} schedules)", v.msg, out.violations.len(), out.executions));
            return;
        }
        if !out.complete {
            acc.fail("machinery", format!("exploration incomplete: {:?}", out.cap));
            return;
        }
        acc.state(&(ka, kb, "yielding-hash", out.executions), out.executions > 1);
    }
}

fn boundary_i128(bits: u32, signed: bool) -> Vec<i128> {
    let mut v = vec![0i128, 1, 2, 3, 255, 256, 257];
    let (min, max) = if signed { (-(1i128 << (bits - 1)), (1i128 << (bits - 1)) - 1) } else { (0, (1i128 << bits) - 1) };
    for j in 0..bits {
        for d in [-1i128, 0, 1] {
            v.push((1i128 << j) + d);
            if signed {
                v.push(-(1i128 << j) + d);
            }
        }
    }
    v.push(min);
    v.push(max);
    v.push(min + 1);
    v.push(max - 1);
    v.retain(|x| *x >= min && *x <= max);
    v.sort();
    v.dedup();
    v
}

pub fn c18_case(case: &Value, acc: &mut CompAcc) {
    use stretto::{DefaultKeyBuilder, KeyBuilder, TransparentKeyBuilder};
    if case["type"] == "string-concurrent" {
        return c18_concurrent(acc);
    }
    macro_rules! full {
        ($t:ty, $iter:expr) => {{
            let kb = TransparentKeyBuilder::<$t>::default();
            let kb2 = TransparentKeyBuilder::<$t>::default();
            let mut seen = std::collections::HashMap::new();
            for k in $iter {
                let k: $t = k;
                acc.cases += 1;
                acc.ops += 3;
                let a = kb.build_key(&k);
                let b2 = kb.build_key(&k);
                let c = kb2.build_key(&k);
                let expect = (k as u64, 0u64);
                if a != expect {
                    acc.fail("transparent-not-identity", format!("TransparentKeyBuilder<{}>: key {} maps to {:?} expected {:?}", stringify!($t), k, a, expect));
                    return;
                }
                if a != b2 || a != c || (kb.hash_index(&k), kb.hash_conflict(&k)) != a {
                    acc.fail("key-hash-unstable", format!("TransparentKeyBuilder<{}>: key {} hashed differently on a second call", stringify!($t), k));
                    return;
                }
                if let Some(prev) = seen.insert(a, k) {
                    acc.fail("transparent-collision", format!("TransparentKeyBuilder<{}>: keys {} and {} collide on {:?}", stringify!($t), prev, k, a));
                    return;
                }
                acc.state(&(stringify!($t), a), a.0 != 0);
            }
        }};
    }
    match case["type"].as_str().unwrap() {
        "u8" => full!(u8, 0..=u8::MAX),
        "i8" => full!(i8, i8::MIN..=i8::MAX),
        "u16" => full!(u16, 0..=u16::MAX),
        "i16" => full!(i16, i16::MIN..=i16::MAX),
        "u32" => full!(u32, boundary_i128(32, false).into_iter().map(|x| x as u32)),
        "i32" => full!(i32, boundary_i128(32, true).into_iter().map(|x| x as i32)),
        "u64" => full!(u64, boundary_i128(64, false).into_iter().map(|x| x as u64)),
        "i64" => full!(i64, boundary_i128(64, true).into_iter().map(|x| x as i64)),
        "usize" => full!(usize, boundary_i128(64, false).into_iter().map(|x| x as usize)),
        "isize" => full!(isize, boundary_i128(64, true).into_iter().map(|x| x as isize)),
        "bool" => {
            let kb = TransparentKeyBuilder::<bool>::default();
            for k in [false, true] {
                acc.cases += 1;
                let a = kb.build_key(&k);
                if a != (k as u64, 0) || a != kb.build_key(&k) {
                    acc.fail("transparent-not-identity", format!("TransparentKeyBuilder<bool>: {} maps to {:?}", k, a));
                    return;
                }
                acc.state(&("bool", a), k);
            }
        }
        _ => {
            // String keys: owned vs borrowed vs repeated calls, per builder instance
            for inst in 0..4 {
                let kb = DefaultKeyBuilder::<String>::default();
                let mut seen = std::collections::HashMap::new();
                for i in 0..1000u32 {
                    let s = match i % 4 {
                        0 => format!("key-{}", i),
                        1 => "x".repeat((i % 67) as usize),
                        2 => format!("{}\u{0}{}", i, i),
                        _ => format!("ключ-{}-鍵", i),
                    };
                    acc.cases += 1;
                    acc.ops += 3;
                    let a = kb.build_key(&s);
                    let b2 = kb.build_key::<str>(s.as_str());
                    let c = kb.build_key(&s.clone());
                    if a != b2 {
                        acc.fail("key-hash-borrow-form", format!("DefaultKeyBuilder<String>: {:?} hashes to {:?} as String but {:?} as &str", s, a, b2));
                        return;
                    }
                    if a != c {
                        acc.fail("key-hash-unstable", format!("DefaultKeyBuilder<String>: {:?} hashed differently on a second call", s));
                        return;
                    }
                    if let Some(prev) = seen.insert(a, s.clone()) {
                        if prev != s {
                            acc.fail("default-collision", format!("DefaultKeyBuilder<String>: {:?} and {:?} collide on the full 128-bit hash", prev, s));
                            return;
                        }
                    }
                    acc.state(&("string", inst, i), true);
                }
            }
        }
    }
}

// ------------------------------------------------------------------------------------------------
// C07: admission / eviction rule on the real LFUPolicy (driven without its background thread)

pub fn c07_cases(tier: &str) -> Vec<Value> {
    let mut v = Vec::new();
    let full_n = if tier == "quick" { 5 } else { 6 };
    for n in 0..=full_n {
        // one case = all cost vectors for (n, popularity-vector chunk): split by the first digits to get parallelism
        let chunks = if n >= 5 { 27 } else { 1 };
        for ch in 0..chunks {
            v.push(json!({"n": n, "chunk": ch, "chunks": chunks, "mode": "full"}));
        }
    }
    for n in (full_n + 1)..=7 {
        v.push(json!({"n": n, "chunk": 0, "chunks": 1, "mode": "structured"}));
    }
    for n in 1..=7 {
        v.push(json!({"n": n, "chunk": 0, "chunks": 1, "mode": "second-add"}));
    }
    // residents charged nothing (or less than nothing) among the candidates: they are sampled and
    // evicted like any other, although evicting them frees no room
    for n in 1..=(if tier == "quick" { 4 } else { 6 }) {
        let chunks = if n >= 5 { 27 } else { 1 };
        for ch in 0..chunks {
            v.push(json!({"n": n, "chunk": ch, "chunks": chunks, "mode": "full", "costs": [0, 2]}));
            v.push(json!({"n": n, "chunk": ch, "chunks": chunks, "mode": "full", "costs": [-1, 2]}));
        }
    }
    v
}

/// Two admissions in a row on one policy, with residents leaving and arriving in between: whatever
/// the first contest left behind (it may have been decided by a rejection), the candidates of the
/// second are current residents - five of them, or all if fewer.
fn c07_second_add(case: &Value, acc: &mut CompAcc) {
    use crate::model::FixedState;
    use stretto::verif::{take_evict_rounds, VPolicy};
    let n = case["n"].as_u64().unwrap() as usize;
    for first_hits in [0u64, 3] {
        for resident_hits in [0u64, 2] {
            for gone in 1..=n {
                for second_cost in [1i64, 2] {
                    acc.cases += 1;
                    let pol = VPolicy::detached(1024, n as i64, FixedState::default(), false).unwrap();
                    for k in 1..=n as u64 {
                        let _ = pol.add(k, 1);
                        for _ in 0..resident_hits {
                            pol.record(vec![k]);
                        }
                    }
                    for _ in 0..first_hits {
                        pol.record(vec![100]);
                    }
                    // first contest: the cache is full, the newcomer wins or loses on popularity
                    let _ = pol.add(100, 1);
                    // residents leave, others arrive (there is room for them)
                    let before: Vec<u64> = pol.snap().key_costs.iter().map(|x| x.0).collect();
                    for k in before.iter().take(gone) {
                        pol.remove(*k);
                    }
                    let mut fresh = 200u64;
                    while pol.snap().used < n as i64 {
                        let (v, added) = pol.add(fresh, 1);
                        if !added || v.map(|v| !v.is_empty()).unwrap_or(false) {
                            acc.fail("room-not-admitted", format!("n {}: key {} was not simply admitted although there is room", n, fresh));
                            return;
                        }
                        fresh += 1;
                    }
                    let _ = take_evict_rounds();
                    let residents: std::collections::HashMap<u64, i64> = pol.snap().key_costs.iter().copied().collect();
                    let est: std::collections::HashMap<u64, i64> = residents.keys().map(|k| (*k, pol.estimate(*k))).collect();
                    let (victims, added) = pol.add(300, second_cost);
                    acc.ops += 1;
                    let rounds = take_evict_rounds();
                    let ctx = || format!("n {} first newcomer hits {} resident hits {} left {} second cost {}: residents {:?} -> rounds {:?} victims {:?} added {}", n, first_hits, resident_hits, gone, second_cost, residents, rounds, victims, added);
                    if second_cost > n as i64 {
                        continue;
                    }
                    let r0 = match rounds.first() {
                        Some(r) => r,
                        None => {
                            acc.fail("no-sampling-round", format!("room is lacking but nothing was sampled: {}", ctx()));
                            return;
                        }
                    };
                    let distinct: std::collections::HashSet<u64> = r0.sample.iter().map(|s| s.0).collect();
                    let want = residents.len().min(5);
                    if distinct.len() != want || r0.sample.len() != want {
                        acc.fail("sample-size", format!("first round sampled {:?}, expected {} distinct residents: {}", r0.sample, want, ctx()));
                        return;
                    }
                    if let Some((k, c)) = r0.sample.iter().find(|(k, c)| residents.get(k) != Some(c)) {
                        acc.fail("sample-not-resident", format!("sampled ({}, {}) is not a resident with that charge: {}", k, c, ctx()));
                        return;
                    }
                    let min = r0.sample.iter().map(|s| est[&s.0]).min().unwrap();
                    if r0.min_hits != min {
                        acc.fail("victim-not-least-popular", format!("the least popular candidate estimates {} but the round used {}: {}", min, r0.min_hits, ctx()));
                        return;
                    }
                    // all residents tie with the never-seen newcomer or beat it: with a tie it is admitted
                    if (min == 0) != added && second_cost == 1 {
                        acc.fail("reject-rule", format!("rejected exactly when strictly less popular than the least popular candidate is violated: {}", ctx()));
                        return;
                    }
                    acc.state(&(n, first_hits, resident_hits, gone, second_cost, added), true);
                }
            }
        }
    }
}

pub fn c07_case(case: &Value, acc: &mut CompAcc) {
    use crate::model::FixedState;
    if case["mode"] == "second-add" {
        return c07_second_add(case, acc);
    }
    use stretto::verif::{take_evict_rounds, VPolicy};
    let n = case["n"].as_u64().unwrap() as usize;
    let chunk = case["chunk"].as_u64().unwrap();
    let chunks = case["chunks"].as_u64().unwrap();
    let structured = case["mode"] == "structured";
    let pops_total = 3u64.pow(n as u32);
    let costs_total = 2u64.pow(n as u32);
    let pop_vals = [0u64, 1, 3];
    let cost_vals: [i64; 2] = match case.get("costs").and_then(|c| c.as_array()) {
        Some(a) => [a[0].as_i64().unwrap(), a[1].as_i64().unwrap()],
        None => [1, 3],
    };
    let mut pop_codes: Vec<u64> = (0..pops_total).filter(|c| c % chunks == chunk).collect();
    let mut cost_codes: Vec<u64> = (0..costs_total).collect();
    if structured {
        // all-equal, ascending, descending, one-hot popularity; uniform and alternating costs
        pop_codes = vec![0, pops_total - 1, (pops_total - 1) / 2, 1, pops_total / 3, 5, 7, 11 % pops_total];
        cost_codes = vec![0, costs_total - 1, 0b0101_0101 % costs_total, 0b0011_0011 % costs_total];
    }
    for &pc in &pop_codes {
        for &cc in &cost_codes {
            let costs: Vec<i64> = (0..n).map(|i| cost_vals[((cc >> i) & 1) as usize]).collect();
            let pops: Vec<u64> = (0..n).map(|i| pop_vals[((pc / 3u64.pow(i as u32)) % 3) as usize]).collect();
            let sum: i64 = costs.iter().sum();
            for dmax in [-1i64, 0, 1] {
                let max = sum + dmax;
                if max <= 0 {
                    continue;
                }
                for inc_cost in [0i64, 1, 3, 5] {
                    for inc_hits in 0..=4u64 {
                        acc.cases += 1;
                        let pol = match VPolicy::detached(1024, 1_000_000, FixedState::default(), false) {
                            Ok(p) => p,
                            Err(e) => {
                                acc.fail("policy-new", format!("{}", e));
                                return;
                            }
                        };
                        for (i, c) in costs.iter().enumerate() {
                            let (_, added) = pol.add(i as u64 + 1, *c);
                            if !added {
                                acc.fail("room-not-admitted", format!("key {} cost {} was not admitted although there is room", i + 1, c));
                                return;
                            }
                        }
                        for (i, p) in pops.iter().enumerate() {
                            for _ in 0..*p {
                                pol.record(vec![i as u64 + 1]);
                            }
                        }
                        for _ in 0..inc_hits {
                            pol.record(vec![100]);
                        }
                        pol.update_max_cost(max);
                        let _ = take_evict_rounds();
                        let before = pol.snap();
                        let est: std::collections::HashMap<u64, i64> = (1..=n as u64).chain([100]).map(|k| (k, pol.estimate(k))).collect();
                        let (victims, added) = pol.add(100, inc_cost);
                        acc.ops += 1;
                        let rounds = take_evict_rounds();
                        let after = pol.snap();
                        let ctx = || format!("residents costs {:?} hits {:?} max_cost {} incoming cost {} hits {} -> victims {:?} added {} rounds {:?}", costs, pops, max, inc_cost, est[&100], victims, added, rounds);
                        let room0 = max - (before.used + inc_cost);
                        if inc_cost > max {
                            if added || !rounds.is_empty() || after != before {
                                acc.fail("oversize-admitted", ctx());
                                return;
                            }
                            continue;
                        }
                        if room0 >= 0 {
                            if !added || victims.as_ref().map(|v| !v.is_empty()).unwrap_or(false) || !rounds.is_empty() {
                                acc.fail("room-not-admitted", format!("there is room but: {}", ctx()));
                                return;
                            }
                            if after.used != before.used + inc_cost || !after.key_costs.contains(&(100, inc_cost)) {
                                acc.fail("admitted-wrong-charge", ctx());
                                return;
                            }
                            acc.state(&(n, &costs, &pops, dmax, inc_cost, inc_hits, "room"), false);
                            continue;
                        }
                        // over budget: sampling rounds
                        if rounds.is_empty() {
                            acc.fail("no-sampling-round", format!("room is lacking but nothing was sampled: {}", ctx()));
                            return;
                        }
                        let mut live: std::collections::HashMap<u64, i64> = before.key_costs.iter().copied().collect();
                        let mut used = before.used;
                        let mut rejected = false;
                        let mut real_victims: Vec<(u64, i64)> = Vec::new();
                        for (ri, r) in rounds.iter().enumerate() {
                            if rejected {
                                acc.fail("round-after-reject", format!("a sampling round happened after the newcomer was rejected: {}", ctx()));
                                return;
                            }
                            let room = max - (used + inc_cost);
                            if room >= 0 || r.room != room {
                                acc.fail("evict-with-room", format!("round {} ran with room {} (reported {}): {}", ri, room, r.room, ctx()));
                                return;
                            }
                            if r.inc_hits != est[&100] {
                                acc.fail("wrong-incoming-estimate", ctx());
                                return;
                            }
                            let distinct: std::collections::HashSet<u64> = r.sample.iter().map(|s| s.0).collect();
                            if ri == 0 {
                                let want = n.min(5);
                                if distinct.len() != want || r.sample.len() != want {
                                    acc.fail("sample-size", format!("first round sampled {:?}, expected {} distinct residents: {}", r.sample, want, ctx()));
                                    return;
                                }
                                for (k, c) in &r.sample {
                                    if live.get(k) != Some(c) {
                                        acc.fail("sample-not-resident", format!("sampled ({}, {}) is not a resident with that charge: {}", k, c, ctx()));
                                        return;
                                    }
                                }
                            }
                            if r.sample.is_empty() {
                                // nothing left to sample: the implementation rejects through min_hits = i64::MAX
                                if r.inc_hits >= r.min_hits {
                                    acc.fail("empty-sample-not-rejected", ctx());
                                    return;
                                }
                                rejected = true;
                                continue;
                            }
                            let min = r.sample.iter().map(|s| est[&s.0]).min().unwrap();
                            if r.min_hits != min || !r.sample.iter().any(|s| s.0 == r.min_key) || est[&r.min_key] != min {
                                acc.fail("victim-not-least-popular", format!("round {}: candidate {} (estimate {}) is not the least popular of the sample (min {}): {}", ri, r.min_key, est.get(&r.min_key).copied().unwrap_or(-1), min, ctx()));
                                return;
                            }
                            if r.inc_hits < r.min_hits {
                                rejected = true;
                                continue;
                            }
                            // evicted: no more popular than the newcomer
                            if est[&r.min_key] > est[&100] {
                                acc.fail("victim-more-popular", ctx());
                                return;
                            }
                            if let Some(c) = live.remove(&r.min_key) {
                                used -= c;
                                real_victims.push((r.min_key, c));
                            }
                        }
                        let reported: Vec<(u64, i64)> = victims.clone().unwrap_or_default();
                        // phantom re-samples of an already evicted candidate may repeat a victim; the distinct ones must match
                        let mut rep_distinct: Vec<(u64, i64)> = Vec::new();
                        for v in &reported {
                            if !rep_distinct.iter().any(|x| x.0 == v.0) {
                                rep_distinct.push(*v);
                            }
                        }
                        if rep_distinct != real_victims {
                            acc.fail("victims-mismatch", format!("returned victims {:?} but the rounds evicted {:?}: {}", reported, real_victims, ctx()));
                            return;
                        }
                        if rejected == added {
                            acc.fail("reject-rule", format!("rejected exactly when strictly less popular than the least popular candidate is violated: {}", ctx()));
                            return;
                        }
                        if added {
                            if max - (used + inc_cost) < 0 {
                                acc.fail("admission-over-budget", ctx());
                                return;
                            }
                            if let Some((_, c)) = real_victims.last() {
                                if max - (used + c + inc_cost) >= 0 {
                                    acc.fail("evict-with-room", format!("the last eviction was not needed: {}", ctx()));
                                    return;
                                }
                            }
                            live.insert(100, inc_cost);
                            used += inc_cost;
                        }
                        let mut a: Vec<(u64, i64)> = after.key_costs.clone();
                        a.sort();
                        let mut l: Vec<(u64, i64)> = live.into_iter().collect();
                        l.sort();
                        if a != l || after.used != used {
                            acc.fail("policy-state-after-add", format!("charges after add {:?} (used {}) expected {:?} (used {}): {}", a, after.used, l, used, ctx()));
                            return;
                        }
                        acc.state(&(n, &costs, &pops, dmax, inc_cost, inc_hits, added, &real_victims), true);
                    }
                }
            }
        }
    }
}

// ------------------------------------------------------------------------------------------------
// C16 (value types): the internal overhead is size_of::<StoreItem<V>>() for every V

pub fn c16_type_cases() -> Vec<Value> {
    let mut v = Vec::new();
    for ty in ["u64", "u8x32", "string", "unit", "vec"] {
        for ignore in [true, false] {
            for cost in [0i64, 1, 5] {
                v.push(json!({"type": ty, "ignore_internal_cost": ignore, "cost": cost}));
            }
        }
    }
    v
}

struct ConstCoster<V>(i64, std::marker::PhantomData<fn(V)>);
impl<V: Send + Sync + 'static> stretto::Coster for ConstCoster<V> {
    type Value = V;
    fn cost(&self, _: &V) -> i64 {
        self.0
    }
}

fn c16_probe<V: Send + Sync + Clone + 'static>(mk: fn(u32) -> V, ignore: bool, cost: i64) -> Result<(i64, i64, i64, usize), String> {
    use crate::model::FixedState;
    use std::sync::{Arc, Mutex};
    use stretto_verif_rt as rt;
    let out: Arc<Mutex<Option<(i64, i64, i64, usize)>>> = Arc::new(Mutex::new(None));
    let o2 = out.clone();
    let res = rt::explore(
        rt::ExploreCfg { bound: 0, ..Default::default() },
        Arc::new(move || {
            rt::world::setup_mode();
            let c: stretto::Cache<u64, V, stretto::TransparentKeyBuilder<u64>, ConstCoster<V>, stretto::DefaultUpdateValidator<V>, stretto::DefaultCacheCallback<V>, FixedState> =
                stretto::Cache::builder(64, 1_000_000)
                    .set_key_builder(stretto::TransparentKeyBuilder::default())
                    .set_hasher(FixedState::default())
                    .set_coster(ConstCoster(7, std::marker::PhantomData))
                    .set_ignore_internal_cost(ignore)
                    .set_buffer_size(8)
                    .finalize()
                    .unwrap();
            assert!(c.insert(1, mk(1), cost));
            rt::settle();
            let first = c.verif_policy().key_costs.iter().find(|k| k.0 == 1).map(|k| k.1).unwrap_or(-1);
            // update with another explicit cost, then with the coster
            assert!(c.insert(1, mk(2), cost + 2));
            rt::settle();
            let second = c.verif_policy().key_costs.iter().find(|k| k.0 == 1).map(|k| k.1).unwrap_or(-1);
            assert!(c.insert(1, mk(3), 0));
            rt::settle();
            let third = c.verif_policy().key_costs.iter().find(|k| k.0 == 1).map(|k| k.1).unwrap_or(-1);
            *o2.lock().unwrap() = Some((first, second, third, c.verif_item_size()));
            rt::world::finish_mode();
        }),
    );
    if let Some(v) = res.violations.first() {
        return Err(format!("{}: {}", v.kind, v.msg));
    }
    let r = out.lock().unwrap().take();
    r.ok_or_else(|| "no result".to_string())
}

pub fn c16_type_case(case: &Value, acc: &mut CompAcc) {
    let ignore = case["ignore_internal_cost"].as_bool().unwrap();
    let cost = case["cost"].as_i64().unwrap();
    let ty = case["type"].as_str().unwrap();
    let (r, isz) = match ty {
        "u64" => (c16_probe::<u64>(|i| i as u64, ignore, cost), stretto::verif::item_size::<u64>()),
        "u8x32" => (c16_probe::<[u8; 32]>(|i| [i as u8; 32], ignore, cost), stretto::verif::item_size::<[u8; 32]>()),
        "string" => (c16_probe::<String>(|i| format!("value-{}", i), ignore, cost), stretto::verif::item_size::<String>()),
        "unit" => (c16_probe::<()>(|_| (), ignore, cost), stretto::verif::item_size::<()>()),
        _ => (c16_probe::<Vec<u64>>(|i| vec![i as u64; 100], ignore, cost), stretto::verif::item_size::<Vec<u64>>()),
    };
    acc.cases = 1;
    acc.ops = 3;
    match r {
        Err(e) => acc.fail("c16-types-engine", e),
        Ok((first, second, third, item_size)) => {
            let internal = if ignore { 0 } else { isz as i64 };
            let exp1 = (if cost != 0 { cost } else { 7 }) + internal;
            let exp2 = cost + 2 + internal;
            let exp3 = 7 + internal;
            if item_size != isz {
                acc.fail("wrong-charge", format!("value type {}: the store reports item size {} but size_of::<StoreItem<V>>() is {}", ty, item_size, isz));
            }
            if (first, second, third) != (exp1, exp2, exp3) {
                acc.fail(
                    "wrong-charge",
                    format!("value type {} ignore_internal_cost {} cost {}: charged {} / {} / {} after insert / update / coster update, expected {} / {} / {}", ty, ignore, cost, first, second, third, exp1, exp2, exp3),
                );
            }
            acc.state(&(ty, ignore, cost, first, second, third), true);
        }
    }
}
