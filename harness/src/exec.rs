//! Execute one `Program` on the real cache inside a model execution and record the `Trace`.

use crate::model::*;
use std::sync::{Arc, Mutex};
use std::time::Duration;
use stretto_verif_rt as rt;

pub struct Env {
    pub h: H,
    /// client thread t >= 1 works through its own clone of the handle (`clones[t - 1]`); thread 0,
    /// the setup and the post section use the handle the builder returned
    pub clones: Vec<H>,
    pub sh: Shared,
    pub recs: Arc<Mutex<Vec<Rec>>>,
    pub snaps: Arc<Mutex<Vec<Snap>>>,
    pub quiescent_at: Arc<Mutex<Vec<u64>>>,
    pub single: bool,
    pub idxs: Vec<u64>,
}

impl Env {
    fn handle(&self, th: usize) -> &H {
        if th >= 1 && th <= self.clones.len() {
            &self.clones[th - 1]
        } else {
            &self.h
        }
    }
    pub fn exec(&self, th: usize, idx: usize, op: Op) {
        let h = self.handle(th);
        let call = tick(&self.sh.clock);
        let call_ns = rt::now_ns();
        let mut wrote = None;
        let res = match op {
            Op::Ins { k, c, ttl_ms } => {
                let v = Val { key: k, seq: Program::seq_of(th, idx) };
                wrote = Some(v);
                h.insert(k, v, c, ttl_ms)
            }
            Op::Pres { k, c } => {
                let v = Val { key: k, seq: Program::seq_of(th, idx) };
                wrote = Some(v);
                h.insert_if_present(k, v, c)
            }
            Op::Rem { k } => h.remove(k),
            Op::Get { k } => h.get(k),
            Op::Mut { k } => {
                let v = Val { key: k, seq: Program::seq_of(th, idx) };
                wrote = Some(v);
                h.get_mut_write(k, v)
            }
            Op::Ttl { k } => h.get_ttl(k),
            Op::GetHold { k, ms } => h.get_hold(k, ms),
            Op::GetYield { k } => h.get_yield(k),
            Op::GetMaxCost { k } => h.get_max_cost(k),
            Op::MutHoldIns { k, n } => h.mut_hold_ins(k, n, Program::seq_of(th, idx)),
            Op::Clear => h.clear(),
            Op::Wait => h.wait(),
            Op::MaxCost { m } => {
                h.update_max_cost(m);
                Res::Int(h.max_cost())
            }
            Op::Close => h.close(),
            Op::Adv { ms } => {
                rt::advance(Duration::from_millis(ms));
                Res::Unit
            }
            Op::AdvNs { ns } => {
                rt::advance(Duration::from_nanos(ns));
                Res::Unit
            }
            Op::Settle => {
                rt::settle();
                Res::Unit
            }
            Op::Snap => {
                let s = self.h.snap(&self.sh.clock, false, &self.idxs);
                self.snaps.lock().unwrap().push(s);
                Res::Unit
            }
            Op::DropHandle => Res::Unit,
        };
        let ret = tick(&self.sh.clock);
        self.recs.lock().unwrap().push(Rec { th, idx, op, call, ret, call_ns, res, wrote });
        if op == Op::Settle && self.single {
            self.quiescent_at.lock().unwrap().push(ret);
            let s = self.h.snap(&self.sh.clock, true, &self.idxs);
            self.snaps.lock().unwrap().push(s);
        }
    }
}

/// Keys -> shard indices the harness declares loud (scheduling points).
pub fn loud_shards(p: &Program) -> Vec<usize> {
    let mut v: Vec<usize> = p.keys().iter().map(|k| (p.cfg.build_key(*k).0 as usize) % 256).collect();
    v.sort_unstable();
    v.dedup();
    v
}

/// Configure the explorer thread for this program (must run before `rt::explore`).
pub fn configure_world(p: &Program) {
    let shards = loud_shards(p);
    rt::with_world(|w| {
        w.phase_ns = p.cfg.phase_ms as u128 * 1_000_000;
        w.filter.loud_shards = Some(shards);
        w.filter.atomic_classes = rt::world::CLASS_CTL
            | if p.cfg.metrics_points { rt::world::CLASS_METRICS | rt::world::CLASS_HIST } else { 0 };
    });
}

/// Run the program to its final quiescent point.  `Err` = the builder rejected the configuration.
pub fn run_program(p: &Program) -> Result<Trace, String> {
    let _ = stretto::verif::take_evict_rounds();
    rt::world::setup_mode();
    let (h, sh) = build(&p.cfg, p.flavor).map_err(|e| format!("{:?}", e))?;
    let clones: Vec<H> = (1..p.threads.len()).map(|_| h.clone()).collect();
    let env = Arc::new(Env {
        h,
        clones,
        sh,
        recs: Arc::new(Mutex::new(Vec::new())),
        snaps: Arc::new(Mutex::new(Vec::new())),
        quiescent_at: Arc::new(Mutex::new(Vec::new())),
        single: p.threads.len() <= 1,
        idxs: p.keys().iter().map(|k| p.cfg.build_key(*k).0).collect(),
    });
    // deterministic pre-state
    for (i, op) in p.setup.iter().enumerate() {
        env.exec(9, i, *op);
        rt::settle();
    }
    if !p.setup.is_empty() {
        let at = tick(&env.sh.clock);
        env.quiescent_at.lock().unwrap().push(at);
    }
    rt::world::explore_mode();
    let mut handles = Vec::new();
    for (t, ops) in p.threads.iter().enumerate().skip(1) {
        let env2 = env.clone();
        let ops = ops.clone();
        handles.push(shuttle::thread::spawn(move || {
            for (i, op) in ops.iter().enumerate() {
                env2.exec(t, i, *op);
            }
        }));
    }
    if let Some(ops) = p.threads.first() {
        for (i, op) in ops.iter().enumerate() {
            env.exec(0, i, *op);
        }
    }
    for hd in handles {
        hd.join().unwrap();
    }
    for (i, op) in p.post.iter().enumerate() {
        env.exec(0, 500 + i, *op);
    }
    let drop_mode = p.threads.iter().flatten().chain(p.post.iter()).any(|o| *o == Op::DropHandle);
    if drop_mode {
        // every handle goes away without close(): afterwards only the worker count is observable
        let Env { h, sh, recs, snaps, quiescent_at, .. } = match Arc::try_unwrap(env) {
            Ok(e) => e,
            Err(_) => panic!("harness: cache handle still shared at drop"),
        };
        drop(h);
        rt::settle();
        let at = tick(&sh.clock);
        quiescent_at.lock().unwrap().push(at);
        snaps.lock().unwrap().push(Snap {
            at,
            quiescent: true,
            now_ns: rt::now_ns(),
            entries: vec![],
            policy: Default::default(),
            buckets: vec![],
            len: 0,
            metrics: None,
            workers: rt::thread::workers(),
            estimates: vec![],
        });
        rt::world::finish_mode();
        let t = Trace {
            recs: recs.lock().unwrap().clone(),
            ledger: sh.ledger.log.lock().unwrap().clone(),
            policy_events: sh.policy_events.lock().unwrap().clone(),
            snaps: snaps.lock().unwrap().clone(),
            validator_calls: sh.validator_calls.lock().unwrap().clone(),
            evict_rounds: stretto::verif::take_evict_rounds(),
            quiescent_at: quiescent_at.lock().unwrap().clone(),
        };
        return Ok(t);
    }
    // final quiescent point
    rt::settle();
    let at = tick(&env.sh.clock);
    env.quiescent_at.lock().unwrap().push(at);
    let fin = env.h.snap(&env.sh.clock, true, &env.idxs);
    env.snaps.lock().unwrap().push(fin);
    rt::world::finish_mode();
    let t = Trace {
        recs: env.recs.lock().unwrap().clone(),
        ledger: env.sh.ledger.log.lock().unwrap().clone(),
        policy_events: env.sh.policy_events.lock().unwrap().clone(),
        snaps: env.snaps.lock().unwrap().clone(),
        validator_calls: env.sh.validator_calls.lock().unwrap().clone(),
        evict_rounds: stretto::verif::take_evict_rounds(),
        quiescent_at: env.quiescent_at.lock().unwrap().clone(),
    };
    // Teardown (deterministic scheduling): drop every handle and let the workers run until they
    // have exited or are blocked for good.  Workers that exit return their coroutine stacks to the
    // pool; otherwise every execution would pay an mmap/munmap and a forced unwind per worker
    // (measured for the async flavour: 6.5 k -> 110 k executions/s on 16 threads; the sync workers
    // already exit on their own when the handles go away).
    drop(env);
    if p.flavor == Flavor::Async {
        rt::settle();
    }
    Ok(t)
}
