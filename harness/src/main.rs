//! svcheck: model-checking harness for the 20 stretto properties (see /verif/DESIGN.md).
//!
//!   svcheck run <Cxx> [--tier quick|thorough] [--secs N]
//!   svcheck replay <replay.json>
//!   svcheck conformance

mod checks;
mod comp;
mod conformance;
mod engine;
mod exec;
mod model;
mod oracle;
mod report;

use report::{finish, Outcome};
use serde_json::json;
use std::time::Instant;

pub struct Args {
    pub tier: String,
    pub secs: u64,
    pub seed: i64,
    pub threads: usize,
}

fn comp_outcome(prop: &str, args: &Args, agg: comp::CompAgg, rule: &str, t0: Instant, extra_assumptions: &[&str]) -> Outcome {
    let mut assumptions: Vec<String> = vec![
        "component driven directly through the cfg-guarded facade stretto::verif (real code, no scheduler involved)".into(),
        "the enumerated alphabets/bounds listed under coverage.rule; nothing is claimed beyond them".into(),
    ];
    assumptions.extend(extra_assumptions.iter().map(|s| s.to_string()));
    Outcome {
        property: prop.into(),
        tier: args.tier.clone(),
        seed: args.seed,
        coverage: json!({
            "states": agg.states.len(),
            "transitions": agg.ops,
            "traces_validated_against_impl": agg.cases,
            "evaluations": agg.cases,
            "distinct_nontrivial": agg.nontrivial.len(),
            "rule": rule,
            "samples": agg.samples,
            "exhaustive": true,
        }),
        assumptions,
        reported: agg.reported,
        machinery_errors: agg.machinery_errors,
        wall_s: t0.elapsed().as_secs_f64(),
    }
}

fn spec_outcome(spec: checks::Spec, args: &Args, t0: Instant, secs: u64) -> Outcome {
    let mut rc = engine::RunCfg::new(secs);
    rc.threads = args.threads;
    let njobs = spec.jobs.len();
    let agg = engine::run_jobs(spec.jobs, spec.oracle, spec.interesting, rc);
    let reported = agg.violations.iter().map(|v| report::Reported::from_found(spec.id, spec.id, v)).collect();
    let coverage = report::coverage_from_agg(&agg, &spec.rule, json!({ "programs_generated": njobs }));
    Outcome {
        property: spec.id.into(),
        tier: args.tier.clone(),
        seed: args.seed,
        coverage,
        assumptions: spec.assumptions,
        reported,
        machinery_errors: agg.machinery_errors,
        wall_s: t0.elapsed().as_secs_f64(),
    }
}

fn run_spec(spec: checks::Spec, args: &Args, t0: Instant) -> i32 {
    finish(spec_outcome(spec, args, t0, args.secs))
}

/// A check whose subject is written separately for the two flavours runs its corpus on the async
/// flavour as well: every `stride`-th program at preemption bound <= 1 in the quick tier, all of
/// them at their own bounds in the thorough tier; a quarter of the time budget.
fn run_both_flavours(id: &str, mk: fn(&str, model::Flavor) -> checks::Spec, args: &Args, t0: Instant, stride: usize) -> i32 {
    let a = spec_outcome(mk(&args.tier, model::Flavor::Sync), args, t0, args.secs * 3 / 4);
    let mut spec = mk(&args.tier, model::Flavor::Async);
    let quick = args.tier == "quick";
    if quick {
        // families of up to 60 programs run in full, the big ones are thinned out
        let mut per_tag: std::collections::HashMap<String, usize> = std::collections::HashMap::new();
        for j in &spec.jobs {
            *per_tag.entry(j.tag.clone()).or_default() += 1;
        }
        spec.jobs = spec.jobs.into_iter().enumerate().filter(|(i, j)| per_tag[&j.tag] <= 60 || i % stride == 0).map(|(_, j)| j).collect();
        for j in spec.jobs.iter_mut() {
            j.bounds.iter_mut().for_each(|b| *b = (*b).min(1));
        }
    }
    spec.rule = format!("[async flavour{}] {}", if quick { format!(": families of up to 60 programs in full, every {}. program of the larger ones, bounds <= 1", stride) } else { String::new() }, spec.rule);
    let mut b = spec_outcome(spec, args, t0, args.secs / 4);
    b.property = format!("{}-async", id);
    finish(merge(id, vec![a, b], t0))
}

/// Merge several outcomes of one property (numeric coverage keys are added, samples concatenated).
fn merge(property: &str, parts: Vec<Outcome>, t0: Instant) -> Outcome {
    let mut cov = serde_json::Map::new();
    let mut rules = Vec::new();
    let mut samples = Vec::new();
    let mut exhaustive = true;
    let mut assumptions: Vec<String> = Vec::new();
    let mut reported = Vec::new();
    let mut errs = Vec::new();
    let mut parts_json = Vec::new();
    let (tier, seed) = (parts[0].tier.clone(), parts[0].seed);
    for p in parts {
        if let Some(o) = p.coverage.as_object() {
            for (k, v) in o {
                match (k.as_str(), v) {
                    ("rule", serde_json::Value::String(r)) => rules.push(r.clone()),
                    ("samples", serde_json::Value::Array(a)) => samples.extend(a.iter().take(3).cloned()),
                    ("exhaustive", serde_json::Value::Bool(b)) => exhaustive &= *b,
                    (_, serde_json::Value::Number(n)) if n.is_u64() => {
                        let cur = cov.get(k).and_then(|x| x.as_u64()).unwrap_or(0);
                        cov.insert(k.clone(), json!(cur + n.as_u64().unwrap()));
                    }
                    _ => {}
                }
            }
            parts_json.push(json!({"part": p.property, "coverage": p.coverage}));
        }
        for a in p.assumptions {
            if !assumptions.contains(&a) {
                assumptions.push(a);
            }
        }
        reported.extend(p.reported.into_iter().map(|mut r| {
            r.property = property.to_string();
            r
        }));
        errs.extend(p.machinery_errors);
    }
    cov.insert("rule".into(), json!(rules.join(" || ")));
    cov.insert("samples".into(), json!(samples));
    cov.insert("exhaustive".into(), json!(exhaustive));
    cov.insert("parts".into(), json!(parts_json));
    Outcome {
        property: property.into(),
        tier,
        seed,
        coverage: serde_json::Value::Object(cov),
        assumptions,
        reported,
        machinery_errors: errs,
        wall_s: t0.elapsed().as_secs_f64(),
    }
}

/// C19: the async flavour satisfies the properties (same harness bodies, background *tasks*,
/// every polling order and ready-arm choice) and behaves like the sync flavour on settled corpora.
fn c19(args: &Args, t0: Instant) -> i32 {
    use model::Flavor::{Async, Sync};
    let quick = args.tier == "quick";
    let mut parts = Vec::new();
    let budget = (args.secs / 14).max(4);
    // 1. properties on the async flavour
    type Mk = fn(&str, model::Flavor) -> checks::Spec;
    let specs: Vec<(&str, Mk, usize)> = vec![
        ("C01", checks::c01, 5),
        ("C02", checks::c02, 7),
        ("C03", checks::c03, 2),
        ("C04", checks::c04, 5),
        ("C05", checks::c05, 5),
        ("C06", checks::c06, 7),
        ("C08", checks::c08, 7),
        ("C09", checks::c09, 5),
        ("C10", checks::c10, 7),
        ("C11", checks::c11, 5),
        ("C12", checks::c12, 4),
        ("C15", checks::c15, 3),
        ("C16", checks::c16, 3),
        ("C17", checks::c17, 7),
    ];
    for (name, mk, stride) in &specs {
        let mut spec = mk("quick", Async);
        let stride = if quick { *stride } else { 1 };
        let total = spec.jobs.len();
        // (families of up to 40 programs run in full: the named races and the multi-client shapes)
        let mut per_tag: std::collections::HashMap<String, usize> = std::collections::HashMap::new();
        for j in &spec.jobs {
            *per_tag.entry(j.tag.clone()).or_default() += 1;
        }
        let keep_small = matches!(*name, "C03" | "C05" | "C09" | "C15" | "C16" | "C17");
        spec.jobs = spec.jobs.into_iter().enumerate().filter(|(i, j)| (keep_small && per_tag[&j.tag] <= 40) || i % stride == 0).map(|(_, j)| j).collect();
        spec.rule = format!("[async {}: {}every {}-th program of its quick corpus ({} of {})] {}", name, if keep_small { "families of up to 40 programs in full, of the larger ones " } else { "" }, stride, spec.jobs.len(), total, spec.rule);
        // the schedule-heavy corpora get twice the share and, in the quick tier, run at
        // preemption bound <= 1 (their synchronous twins run at the full bounds in their own checks)
        let heavy = matches!(*name, "C02" | "C10" | "C11" | "C12" | "C15" | "C17");
        if quick && heavy {
            // (the single-client programs of the barrier corpus keep their bound: wait() is written
            // separately for the async flavour)
            let keep_single = *name == "C10";
            for j in spec.jobs.iter_mut().filter(|j| !(keep_single && j.program.threads.len() == 1)) {
                j.bounds.iter_mut().for_each(|b| *b = (*b).min(1));
            }
            // (the wait-vs-close/clear termination shapes explode on the async flavour: bound 0 here,
            // their sync twins and the thorough tier run them at the full bounds)
            for j in spec.jobs.iter_mut().filter(|j| j.tag == "c10-term") {
                j.bounds.iter_mut().for_each(|b| *b = 0);
            }
            spec.rule = format!("[preemption bounds capped at 1{}] {}", if keep_single { " for the multi-client programs, 0 for the c10-term shapes" } else { "" }, spec.rule);
        }
        // (the barrier corpus keeps the bounds of its single-client programs: three shares)
        let mut o = spec_outcome(spec, args, t0, if quick { if *name == "C10" { 3 * budget } else if heavy { 2 * budget } else { budget } } else { args.secs / 16 });
        o.property = format!("C19-async-{}", name);
        parts.push(o);
    }
    // 2. differential: settled corpora on both flavours, outcome sets must coincide
    parts.push(differential(args, t0, quick));
    // 3. the fresh-cache differential of C11 on the async flavour (clear() acknowledged at the right moment)
    parts.push(c11_differential(args, t0, Async, "C19"));
    finish(merge("C19", parts, t0))
}

/// C11: `prefix; clear(); suffix` is indistinguishable from `suffix` on a fresh cache.
fn c11_differential(args: &Args, t0: Instant, flavor: model::Flavor, prop: &str) -> Outcome {
    let (jobs, names) = checks::c11_diff_pairs(&args.tier, flavor);
    let programs: Vec<model::Program> = jobs.iter().map(|j| j.program.clone()).collect();
    let n = jobs.len();
    let mut rc = engine::RunCfg::new((args.secs / 4).max(10));
    rc.threads = args.threads;
    rc.keep_job_states = true;
    rc.state_hash = engine::client0_hash;
    let agg = engine::run_jobs(jobs, |_, _| vec![], |_, t| t.ledger.iter().any(|e| e.kind == model::CbKind::Reject || e.kind == model::CbKind::Evict), rc);
    let mut reported = Vec::new();
    let mut compared = 0u64;
    for i in 0..n / 2 {
        if let (Some(a), Some(b)) = (agg.job_states.get(&(2 * i)), agg.job_states.get(&(2 * i + 1))) {
            compared += 1;
            if a != b {
                reported.push(report::Reported {
                    property: prop.into(),
                    check: "c11-diff".into(),
                    class: "not-like-fresh-after-clear".into(),
                    msg: format!(
                        "after the prefix and clear() the suffix behaves differently from the same suffix on a fresh cache: {} vs {} distinct outcomes, {} in common",
                        a.len(),
                        b.len(),
                        a.intersection(b).count()
                    ),
                    case_text: names[i].clone(),
                    replay: json!({"kind": "diff", "hash": "client0", "a": programs[2 * i], "b": programs[2 * i + 1]}),
                });
            }
        }
    }
    let coverage = report::coverage_from_agg(
        &agg,
        "differential: [prefix; clear()] as deterministic pre-state + suffix as client 0, against the same suffix on a fresh cache (capacity 2, buffer_items 1 so lookups reach the estimator, metrics on); prefixes: every body of <= 2 (quick) / 3 operations over {G(9), G(1), I(9), I(1,1s), I(2), R(9), M(1)} + two 'hot key' prefixes; 4 suffixes (admission contest after refilling, re-used keys with other TTLs + idle time, conditional writes); the sets of client-0-observable outcomes must coincide",
        json!({ "programs_generated": n, "program_pairs_compared": compared }),
    );
    Outcome {
        property: format!("{}-clear-differential", prop),
        tier: args.tier.clone(),
        seed: args.seed,
        coverage,
        assumptions: checks::COMMON_ASSUMPTIONS.iter().map(|s| s.to_string()).collect(),
        reported,
        machinery_errors: agg.machinery_errors,
        wall_s: t0.elapsed().as_secs_f64(),
    }
}

fn differential(args: &Args, t0: Instant, quick: bool) -> Outcome {
    use model::Flavor::{Async, Sync};
    let mut jobs = Vec::new();
    let mut names = Vec::new();
    type Mk = fn(&str, model::Flavor) -> checks::Spec;
    let corp: Vec<(&str, Mk, usize)> = vec![
        ("C03", checks::c03, 3),
        ("C04", checks::c04, 29),
        ("C05", checks::c05, 17),
        ("C09", checks::c09, 31),
        ("C16", checks::c16, 5),
        ("C17", checks::c17, 5),
        ("C18", checks::c18, 17),
        ("C19-closed-cache", checks::c19_close_corpus, 1),
    ];
    for (name, mk, stride) in corp {
        let stride = if quick { stride } else { (stride / 4).max(1) };
        let stride = stride.max(1);
        let s = mk("quick", Sync);
        for (i, j) in s.jobs.into_iter().enumerate() {
            if i % stride != 0 || !checks::is_settled(&j.program) {
                continue;
            }
            let mut a = j.clone();
            a.program.flavor = Async;
            names.push(format!("{}: {}", name, j.program.short()));
            jobs.push(j);
            jobs.push(a);
        }
    }
    let n = jobs.len();
    let programs: Vec<model::Program> = jobs.iter().map(|j| j.program.clone()).collect();
    let mut rc = engine::RunCfg::new(if quick { (args.secs / 4).max(10) } else { args.secs / 4 });
    rc.threads = args.threads;
    rc.keep_job_states = true;
    rc.state_hash = engine::observable_hash;
    let agg = engine::run_jobs(jobs, |_, _| vec![], |_, t| !t.ledger.is_empty() || t.recs.iter().any(|r| matches!(r.res, model::Res::Val(Some(_)))), rc);
    let mut reported = Vec::new();
    let mut compared = 0u64;
    for i in 0..n / 2 {
        if let (Some(s), Some(a)) = (agg.job_states.get(&(2 * i)), agg.job_states.get(&(2 * i + 1))) {
            compared += 1;
            if s != a {
                reported.push(report::Reported {
                    property: "C19".into(),
                    check: "c19-diff".into(),
                    class: "async-differs-from-sync".into(),
                    msg: format!("the sets of observable outcomes differ: sync {} outcomes, async {} outcomes, {} in common", s.len(), a.len(), s.intersection(a).count()),
                    case_text: names[i].clone(),
                    replay: json!({"kind": "diff", "hash": "observable", "a": programs[2 * i], "b": programs[2 * i + 1]}),
                });
            }
        }
    }
    let coverage = report::coverage_from_agg(
        &agg,
        "differential: settled single-client programs taken from the corpora of C03, C04, C05, C09, C16, C17, C18 run on Cache and on AsyncCache under every scheduling/select choice at bound 0; the SETS of observable outcomes (return values, lookups, remaining TTLs, callbacks with costs, final entries, charges, expiry index, metrics) must be equal",
        json!({ "programs_generated": n, "program_pairs_compared": compared }),
    );
    Outcome {
        property: "C19-differential".into(),
        tier: args.tier.clone(),
        seed: args.seed,
        coverage,
        assumptions: checks::COMMON_ASSUMPTIONS.iter().map(|s| s.to_string()).collect(),
        reported,
        machinery_errors: agg.machinery_errors,
        wall_s: t0.elapsed().as_secs_f64(),
    }
}

fn run_check(id: &str, args: &Args) -> i32 {
    let t0 = Instant::now();
    match id {
        "C13" => {
            let agg = comp::run_cases("C13", "c13", comp::c13_cases(&args.tier), comp::c13_case, args.threads);
            let a = comp_outcome(
                "C13-estimator",
                args,
                agg,
                "every sequence (length <= len) over {4 keys chosen to collide / not collide per width, reset, clear} for each counter width, plus 40-fold saturation runs over 71 hashes, plus hot-key workloads on the estimator (one key recorded far beyond the counter limit within a window, a cold key every 5th / 19th access: the window position advances on every access, the reset falls on every num_counters-th one); states = distinct counter arrays reached; non-trivial = some counter non-zero / an aging reset happened",
                t0,
                &[],
            );
            let b = spec_outcome(checks::c13_cache(&args.tier, model::Flavor::Sync), args, t0, args.secs / 4);
            finish(merge("C13", vec![a, b], t0))
        }
        "C14" => {
            let agg = comp::run_cases("C14", "c14", comp::c14_cases(&args.tier), comp::c14_case, args.threads);
            finish(comp_outcome(
                "C14",
                args,
                agg,
                "(capacity, rate in {1e-9, 1e-6, 1e-4, 0.001, 0.01, 0.1, 0.5, 0.72, 0.9, 0.99}: 30 down to 1 probes per hash) grid x 7 structured hash families, hashes entered alternately through add and contains_or_add: every element re-checked after every add (full prefix for n<=1000), reset/clear emptiness over all added + 20000 probes; false-positive count over a fixed enumeration of well-mixed never-added probes, bound 3p+0.005; non-trivial = filter non-empty / at least one false positive",
                t0,
                &["the false-positive clause is checked for well-mixed probe hashes (splitmix64 enumeration), against add-sets from three families"],
            ))
        }
        "C07" => {
            let agg = comp::run_cases("C07", "c07", comp::c07_cases(&args.tier), comp::c07_case, args.threads);
            let b = spec_outcome(checks::c07_cache(&args.tier, model::Flavor::Sync), args, t0, args.secs);
            let a = comp_outcome(
                "C07-policy",
                args,
                agg,
                "real LFUPolicy::add (driven without its worker thread): residents n in 0..=7, cost vectors {1,3}^n and (n<=4 quick / n<=6 thorough) {0,2}^n and {-1,2}^n (residents charged nothing or less among the candidates), popularity vectors {0,1,3}^n built by real increments (all for n<=5 quick / n<=6 thorough, structured subsets above), max_cost in {sum-1 (over budget), sum, sum+1}, incoming cost {0,1,3,5}, incoming hits 0..=4; every sampling round is observed (cfg-guarded observer) and checked against the actual estimates read from the real sketch; plus two admissions in a row on one policy (n in 1..=7 unit-cost residents, the first contest won or lost, 1..n residents leaving and fresh ones arriving in between): the candidates of the second contest are current residents; non-trivial = at least one sampling round ran",
                t0,
                &["popularity estimates are read from the real sketch (1024 counters, no collisions among the <=8 keys used), so estimator collisions cannot cause false alarms", "phantom re-samples of an already evicted candidate are tolerated (they evict nothing)"],
            );
            finish(merge("C07", vec![a, b], t0))
        }
        "C01" => run_spec(checks::c01(&args.tier, model::Flavor::Sync), args, t0),
        "C02" => {
            let a = spec_outcome(checks::c02(&args.tier, model::Flavor::Sync), args, t0, args.secs * 2 / 3);
            // the same entry points exist separately on the async flavour: every 3rd program of the
            // corpus (quick; all of them in the thorough tier), preemption bounds capped at 1 in quick
            let mut spec = checks::c02(&args.tier, model::Flavor::Async);
            let quick = args.tier == "quick";
            if quick {
                spec.jobs = spec.jobs.into_iter().enumerate().filter(|(i, _)| i % 3 == 0).map(|(_, j)| j).collect();
                for j in spec.jobs.iter_mut() {
                    j.bounds.iter_mut().for_each(|b| *b = (*b).min(1));
                }
            }
            spec.rule = format!("[async flavour{}] {}", if quick { ": every 3rd program, bounds <= 1" } else { "" }, spec.rule);
            let mut b = spec_outcome(spec, args, t0, args.secs / 3);
            b.property = "C02-async".into();
            finish(merge("C02", vec![a, b], t0))
        }
        "C06" => run_spec(checks::c06(&args.tier, model::Flavor::Sync), args, t0),
        "C08" => run_spec(checks::c08(&args.tier, model::Flavor::Sync), args, t0),
        "C10" => run_spec(checks::c10(&args.tier, model::Flavor::Sync), args, t0),
        "C11" => {
            let a = spec_outcome(checks::c11(&args.tier, model::Flavor::Sync), args, t0, args.secs * 3 / 4);
            let b = c11_differential(args, t0, model::Flavor::Sync, "C11");
            finish(merge("C11", vec![a, b], t0))
        }
        "C12" => {
            // close() is written separately for the two flavours: the async corpus is part of this
            // check (quick: every 4th program at preemption bound <= 1; thorough: all of them)
            let a = spec_outcome(checks::c12(&args.tier, model::Flavor::Sync), args, t0, args.secs * 9 / 10);
            let mut spec = checks::c12(&args.tier, model::Flavor::Async);
            let quick = args.tier == "quick";
            if quick {
                spec.jobs = spec.jobs.into_iter().enumerate().filter(|(i, _)| i % 4 == 0).map(|(_, j)| j).collect();
                for j in spec.jobs.iter_mut() {
                    j.bounds.iter_mut().for_each(|b| *b = (*b).min(1));
                }
            }
            spec.rule = format!("[async flavour{}] {}", if quick { ": every 4th program, bounds <= 1" } else { "" }, spec.rule);
            let mut b = spec_outcome(spec, args, t0, args.secs / 10);
            b.property = "C12-async".into();
            finish(merge("C12", vec![a, b], t0))
        }
        "C17" => run_spec(checks::c17(&args.tier, model::Flavor::Sync), args, t0),
        // (the lookup ring is written separately for the two flavours)
        "C15" => run_both_flavours("C15", checks::c15, args, t0, 3),
        // (so are the builders and their validation)
        "C20" => run_both_flavours("C20", checks::c20, args, t0, 5),
        "C18" => {
            let agg = comp::run_cases("C18", "c18", comp::c18_cases(&args.tier), comp::c18_case, args.threads);
            let a = comp_outcome("C18-keybuilders", args, agg, "TransparentKeyBuilder over ALL values of u8, i8, u16, i16, bool and boundary sets (0, +-1, MIN, MAX, 2^j, 2^j+-1) of u32, i32, u64, i64, usize, isize: build_key == (k as u64, 0), stable across calls and instances, injective; DefaultKeyBuilder<String>: 4 instances x 1000 strings, String vs &str vs repeated calls; one builder shared by two threads from its first use, every schedule of their first build_key calls at preemption bound 2", t0, &[]);
            let b = spec_outcome(checks::c18(&args.tier, model::Flavor::Sync), args, t0, args.secs);
            finish(merge("C18", vec![a, b], t0))
        }
        "C19" => c19(args, t0),
        // debugging aid: the corpus of one check on the async flavour, e.g. `svcheck run A06`
        a if a.starts_with('A') => {
            type Mk = fn(&str, model::Flavor) -> checks::Spec;
            let mk: Mk = match &a[1..] {
                "01" => checks::c01,
                "02" => checks::c02,
                "06" => checks::c06,
                "08" => checks::c08,
                "10" => checks::c10,
                "11" => checks::c11,
                "12" => checks::c12,
                _ => checks::c04,
            };
            let mut spec = mk(&args.tier, model::Flavor::Async);
            spec.id = "C19";
            run_spec(spec, args, t0)
        }
        "C03" => run_spec(checks::c03(&args.tier, model::Flavor::Sync), args, t0),
        "C04" => run_spec(checks::c04(&args.tier, model::Flavor::Sync), args, t0),
        "C05" => run_spec(checks::c05(&args.tier, model::Flavor::Sync), args, t0),
        "C09" => {
            let a = spec_outcome(checks::c09(&args.tier, model::Flavor::Sync), args, t0, args.secs * 2 / 3);
            // every insert variant also exists on the async flavour (separate entry points)
            let mut b = spec_outcome(checks::c09(&args.tier, model::Flavor::Async), args, t0, args.secs / 3);
            b.property = "C09-async".into();
            finish(merge("C09", vec![a, b], t0))
        }
        "C16" => {
            let a = spec_outcome(checks::c16(&args.tier, model::Flavor::Sync), args, t0, args.secs);
            let agg = comp::run_cases("C16", "c16-types", comp::c16_type_cases(), comp::c16_type_case, args.threads.min(8));
            let b = comp_outcome("C16-value-types", args, agg, "value types u64, [u8;32], String, (), Vec<u64> x ignore_internal_cost x cost {0,1,5}: insert, update with another explicit cost, update with cost 0 (coster = 7), quiescence between the writes, charge read through the facade; expected (cost or coster) + size_of::<StoreItem<V>>() unless ignored", t0, &[]);
            // the same histories on the async flavour (its sweep and processor are separate code)
            let mut c = spec_outcome(checks::c16(&args.tier, model::Flavor::Async), args, t0, args.secs);
            c.property = "C16-async".into();
            finish(merge("C16", vec![a, b, c], t0))
        }
        other => {
            eprintln!("unknown check {}", other);
            2
        }
    }
}

/// Re-run one recorded violation twice: identical observations and the same verdict are required.
fn replay(path: &str, show_trace: bool) -> i32 {
    let txt = match std::fs::read_to_string(path) {
        Ok(t) => t,
        Err(e) => {
            eprintln!("machinery: cannot read {}: {}", path, e);
            return 2;
        }
    };
    let r: report::Reported = match serde_json::from_str(&txt) {
        Ok(r) => r,
        Err(e) => {
            eprintln!("machinery: cannot parse {}: {}", path, e);
            return 2;
        }
    };
    println!("replaying {} class={} case={}", r.property, r.class, r.case_text);
    if r.replay["kind"] == "comp" {
        let check = r.replay["check"].as_str().unwrap_or("");
        let f: comp::CaseFn = match check {
            "c13" => comp::c13_case,
            "c14" => comp::c14_case,
            "c07" => comp::c07_case,
            "c18" => comp::c18_case,
            "c16-types" => comp::c16_type_case,
            _ => {
                eprintln!("machinery: unknown component check {}", check);
                return 2;
            }
        };
        let mut verdicts = Vec::new();
        for _ in 0..2 {
            let agg = comp::run_cases(&r.property, check, vec![r.replay["case"].clone()], f, 1);
            let mut v: Vec<(String, String)> = agg.reported.iter().map(|x| (x.class.clone(), x.msg.clone())).collect();
            v.sort();
            verdicts.push(v);
        }
        if verdicts[0] != verdicts[1] {
            eprintln!("MACHINERY-ERROR: replay is not deterministic");
            return 2;
        }
        for (c, m) in &verdicts[0] {
            println!("  {}: {}", c, m);
        }
        return if verdicts[0].iter().any(|(c, _)| *c == r.class) {
            println!("VIOLATION property={} replay={}", r.property, path);
            1
        } else {
            println!("replay: the recorded violation does not occur on this tree");
            0
        };
    }
    if r.replay["kind"] == "diff" {
        let (a, b): (model::Program, model::Program) = match (serde_json::from_value(r.replay["a"].clone()), serde_json::from_value(r.replay["b"].clone())) {
            (Ok(a), Ok(b)) => (a, b),
            _ => {
                eprintln!("machinery: bad differential replay record");
                return 2;
            }
        };
        let hash: fn(&model::Trace) -> u64 = if r.replay["hash"] == "client0" { engine::client0_hash } else { engine::observable_hash };
        let mut verdicts = Vec::new();
        for _ in 0..2 {
            let mut rc = engine::RunCfg::new(120);
            rc.threads = 2;
            rc.keep_job_states = true;
            rc.state_hash = hash;
            let jobs = vec![
                engine::Job { program: a.clone(), bounds: vec![0], dev_bounds: vec![], tag: "a".into() },
                engine::Job { program: b.clone(), bounds: vec![0], dev_bounds: vec![], tag: "b".into() },
            ];
            let agg = engine::run_jobs(jobs, |_, _| vec![], |_, _| true, rc);
            let mut sa: Vec<u64> = agg.job_states.get(&0).map(|s| s.iter().copied().collect()).unwrap_or_default();
            let mut sb: Vec<u64> = agg.job_states.get(&1).map(|s| s.iter().copied().collect()).unwrap_or_default();
            sa.sort();
            sb.sort();
            verdicts.push((sa, sb));
        }
        if verdicts[0] != verdicts[1] {
            eprintln!("MACHINERY-ERROR: the two replays differ (uncontrolled nondeterminism)");
            return 2;
        }
        println!("  outcome sets: {} vs {}", verdicts[0].0.len(), verdicts[0].1.len());
        return if verdicts[0].0 != verdicts[0].1 {
            println!("VIOLATION property={} replay={}", r.property, path);
            1
        } else {
            println!("replay: the two programs have the same outcome sets on this tree");
            0
        };
    }
    let v: engine::FoundViolation = match serde_json::from_value(r.replay["violation"].clone()) {
        Ok(v) => v,
        Err(e) => {
            eprintln!("machinery: bad replay record: {}", e);
            return 2;
        }
    };
    let oracle = match checks::oracle_for(&r.check) {
        Some(o) => o,
        None => {
            eprintln!("machinery: no oracle for {}", r.check);
            return 2;
        }
    };
    if show_trace {
        engine::print_trace(&v);
    }
    let (same, found, errs) = engine::replay_violation(&v, oracle);
    for e in &errs {
        eprintln!("MACHINERY-ERROR: {}", e);
    }
    if !same || !errs.is_empty() {
        eprintln!("MACHINERY-ERROR: the two replays of the recorded schedule differ (uncontrolled nondeterminism)");
        return 2;
    }
    for (c, m) in &found {
        println!("  {}: {}", c, m);
    }
    if found.iter().any(|(c, _)| *c == r.class) {
        println!("VIOLATION property={} replay={}", r.property, path);
        1
    } else {
        println!("replay: the recorded violation does not occur on this tree (schedule replayed twice, identical observations)");
        0
    }
}

fn main() {
    let argv: Vec<String> = std::env::args().collect();
    let mut args = Args {
        tier: std::env::var("VERIF_TIER").unwrap_or_else(|_| "quick".into()),
        secs: 0,
        seed: std::env::var("VERIF_SEED").ok().and_then(|s| s.parse().ok()).unwrap_or(0),
        threads: std::thread::available_parallelism().map(|n| n.get()).unwrap_or(8).min(16),
    };
    let mut pos = Vec::new();
    let mut i = 1;
    while i < argv.len() {
        match argv[i].as_str() {
            "--tier" => {
                args.tier = argv[i + 1].clone();
                i += 1;
            }
            "--secs" => {
                args.secs = argv[i + 1].parse().unwrap();
                i += 1;
            }
            "--trace" => {}
            "--threads" => {
                args.threads = argv[i + 1].parse().unwrap();
                i += 1;
            }
            x => pos.push(x.to_string()),
        }
        i += 1;
    }
    if args.secs == 0 {
        args.secs = if args.tier == "quick" { 55 } else { 1500 };
    }
    let code = match pos.first().map(|s| s.as_str()) {
        Some("run") => run_check(&pos[1], &args),
        Some("conformance") => conformance::run(),
        Some("replay") => replay(&pos[1], argv.iter().any(|a| a == "--trace")),
        _ => {
            eprintln!("usage: svcheck run <Cxx> [--tier quick|thorough] | replay <file> | conformance");
            2
        }
    };
    std::process::exit(code);
}
