//! svcheck: model-checking harness for the 20 stretto properties (see /verif/DESIGN.md).
//!
//!   svcheck run <Cxx> [--tier quick|thorough] [--secs N]
//!   svcheck replay <replay.json>
//!   svcheck conformance

mod comp;
mod conformance;
mod engine;
mod exec;
mod model;
mod report;

use report::{finish, Outcome};
use serde_json::json;
use std::time::Instant;

pub struct Args {
    pub tier: String,
    pub secs: u64,
    pub seed: i64,
    pub threads: usize,
}

fn comp_outcome(prop: &str, args: &Args, agg: comp::CompAgg, rule: &str, t0: Instant, extra_assumptions: &[&str]) -> Outcome {
    let mut assumptions: Vec<String> = vec![
        "component driven directly through the cfg-guarded facade stretto::verif (real code, no scheduler involved)".into(),
        "the enumerated alphabets/bounds listed under coverage.rule; nothing is claimed beyond them".into(),
    ];
    assumptions.extend(extra_assumptions.iter().map(|s| s.to_string()));
    Outcome {
        property: prop.into(),
        tier: args.tier.clone(),
        seed: args.seed,
        coverage: json!({
            "states": agg.states.len(),
            "transitions": agg.ops,
            "traces_validated_against_impl": agg.cases,
            "evaluations": agg.cases,
            "distinct_nontrivial": agg.nontrivial.len(),
            "rule": rule,
            "samples": agg.samples,
            "exhaustive": true,
        }),
        assumptions,
        reported: agg.reported,
        machinery_errors: agg.machinery_errors,
        wall_s: t0.elapsed().as_secs_f64(),
    }
}

fn run_check(id: &str, args: &Args) -> i32 {
    let t0 = Instant::now();
    match id {
        "C13" => {
            let agg = comp::run_cases("C13", "c13", comp::c13_cases(&args.tier), comp::c13_case, args.threads);
            finish(comp_outcome(
                "C13",
                args,
                agg,
                "every sequence (length <= len) over {4 keys chosen to collide / not collide per width, reset, clear} for each counter width, plus 40-fold saturation runs over 71 hashes; states = distinct counter arrays reached; non-trivial = some counter non-zero / an aging reset happened",
                t0,
                &[],
            ))
        }
        "C14" => {
            let agg = comp::run_cases("C14", "c14", comp::c14_cases(&args.tier), comp::c14_case, args.threads);
            finish(comp_outcome(
                "C14",
                args,
                agg,
                "(capacity, rate) grid x 7 structured hash families: every element re-checked after every add (full prefix for n<=1000), reset/clear emptiness over all added + 20000 probes; false-positive count over a fixed enumeration of well-mixed never-added probes, bound 3p+0.005; non-trivial = filter non-empty / at least one false positive",
                t0,
                &["the false-positive clause is checked for well-mixed probe hashes (splitmix64 enumeration), against add-sets from three families"],
            ))
        }
        other => {
            eprintln!("unknown check {}", other);
            2
        }
    }
}

fn main() {
    let argv: Vec<String> = std::env::args().collect();
    let mut args = Args {
        tier: std::env::var("VERIF_TIER").unwrap_or_else(|_| "quick".into()),
        secs: 0,
        seed: std::env::var("VERIF_SEED").ok().and_then(|s| s.parse().ok()).unwrap_or(0),
        threads: std::thread::available_parallelism().map(|n| n.get()).unwrap_or(8).min(16),
    };
    let mut pos = Vec::new();
    let mut i = 1;
    while i < argv.len() {
        match argv[i].as_str() {
            "--tier" => {
                args.tier = argv[i + 1].clone();
                i += 1;
            }
            "--secs" => {
                args.secs = argv[i + 1].parse().unwrap();
                i += 1;
            }
            "--threads" => {
                args.threads = argv[i + 1].parse().unwrap();
                i += 1;
            }
            x => pos.push(x.to_string()),
        }
        i += 1;
    }
    if args.secs == 0 {
        args.secs = if args.tier == "quick" { 40 } else { 1500 };
    }
    let code = match pos.first().map(|s| s.as_str()) {
        Some("run") => run_check(&pos[1], &args),
        Some("conformance") => conformance::run(),
        _ => {
            eprintln!("usage: svcheck run <Cxx> [--tier quick|thorough] | replay <file> | conformance");
            2
        }
    };
    std::process::exit(code);
}
