//! Evidence files, known findings, VIOLATION / KNOWN-FINDING lines, exit codes.

use crate::engine::{Agg, FoundViolation};
use serde::{Deserialize, Serialize};
use serde_json::{json, Value};
use std::collections::hash_map::DefaultHasher;
use std::hash::{Hash, Hasher};
use std::path::PathBuf;

#[derive(Clone, Debug, Serialize, Deserialize)]
pub struct KnownFinding {
    pub property: String,
    /// exact class string computed by the oracle (identifies the failing call site / history shape)
    pub class: String,
    /// substring that must occur in the canonical program / case text ("" = any program of that class)
    #[serde(default)]
    pub program_contains: String,
    pub what: String,
}
#[derive(Clone, Debug, Default, Serialize, Deserialize)]
pub struct KnownFile {
    #[serde(default)]
    pub findings: Vec<KnownFinding>,
    #[serde(default)]
    pub fixed: Vec<String>,
}

pub fn verif_dir() -> PathBuf {
    std::env::var("VERIF_DIR").map(PathBuf::from).unwrap_or_else(|_| PathBuf::from("/verif"))
}

pub fn load_known() -> KnownFile {
    let p = verif_dir().join("known-findings.json");
    match std::fs::read_to_string(&p) {
        Ok(s) => serde_json::from_str(&s).unwrap_or_else(|e| {
            eprintln!("machinery: cannot parse {}: {}", p.display(), e);
            std::process::exit(2)
        }),
        Err(_) => KnownFile::default(),
    }
}

/// A violation in reportable form (model-checking engines and component engines alike).
#[derive(Clone, Debug, Serialize, Deserialize)]
pub struct Reported {
    pub property: String,
    pub check: String,
    pub class: String,
    pub msg: String,
    /// canonical text of the failing program / case
    pub case_text: String,
    /// everything needed to replay
    pub replay: Value,
}

impl Reported {
    pub fn from_found(property: &str, check: &str, v: &FoundViolation) -> Self {
        Reported {
            property: property.to_string(),
            check: check.to_string(),
            class: v.class.clone(),
            msg: v.msg.clone(),
            case_text: v.program.short(),
            replay: json!({ "kind": "program", "violation": v }),
        }
    }
}

pub struct Outcome {
    pub property: String,
    pub tier: String,
    pub seed: i64,
    pub coverage: Value,
    pub assumptions: Vec<String>,
    pub reported: Vec<Reported>,
    pub machinery_errors: Vec<String>,
    pub wall_s: f64,
}

pub fn coverage_from_agg(a: &Agg, rule: &str, extra: Value) -> Value {
    let exhaustive = a.incomplete.is_empty() && a.machinery_errors.is_empty();
    let mut c = json!({
        "states": a.states.len(),
        "transitions": a.steps,
        "traces_validated_against_impl": a.executions,
        "evaluations": a.executions,
        "distinct_nontrivial": a.interesting.len(),
        "rule": rule,
        "samples": a.samples,
        "programs": a.programs,
        "executions": a.executions,
        "scheduling_points": a.points,
        "select_ties": a.select_ties,
        "executions_with_interesting_event": a.interesting_execs,
        "executions_by_preemptions": a.preempt_hist,
        "programs_completed_per_bound": a.completed_at.iter().map(|(b, n)| (if *b >= 100 { format!("deviation-bound {}", b - 100) } else { format!("preemption-bound {}", b) }, json!(n))).collect::<serde_json::Map<_, _>>(),
        "max_choice_depth": a.max_depth,
        "exhaustive": exhaustive,
        "caps_hit": a.incomplete.iter().take(10).collect::<Vec<_>>(),
        "caps_hit_count": a.incomplete.len(),
        "violating_programs": a.violating_programs,
        "builder_rejected_configurations": a.builder_rejected,
        "heaviest_explorations": a.heaviest.iter().map(|(n, b, p)| json!({"executions": n, "bound": b, "program": p})).collect::<Vec<_>>(),
        "per_harness": a.per_tag.iter().map(|(k, v)| (k.clone(), json!({"programs": v.0, "executions": v.1}))).collect::<serde_json::Map<_, _>>(),
    });
    if let (Some(o), Some(e)) = (c.as_object_mut(), extra.as_object()) {
        for (k, v) in e {
            o.insert(k.clone(), v.clone());
        }
    }
    c
}

/// Write evidence, print the verdict lines, return the exit code.
pub fn finish(mut o: Outcome) -> i32 {
    let known = load_known();
    let dir = verif_dir();
    let _ = std::fs::create_dir_all(dir.join("evidence"));
    let _ = std::fs::create_dir_all(dir.join("replays"));
    let mut unmatched: Vec<&Reported> = Vec::new();
    let mut matched: std::collections::BTreeMap<String, (String, usize)> = Default::default();
    for r in &o.reported {
        let k = known.findings.iter().find(|k| {
            k.property == r.property && k.class == r.class && (k.program_contains.is_empty() || r.case_text.contains(&k.program_contains))
        });
        match k {
            Some(k) => {
                let e = matched.entry(format!("{}|{}|{}", k.property, k.class, k.program_contains)).or_insert((k.what.clone(), 0));
                e.1 += 1;
            }
            None => unmatched.push(r),
        }
    }
    for (k, (what, n)) in &matched {
        let class = k.split('|').nth(1).unwrap_or("");
        println!("KNOWN-FINDING: property={} class={} {} ({} violating executions/cases matched)", o.property, class, what, n);
    }
    // one replay file per distinct (class, case); cap the number of lines
    let mut seen = std::collections::HashSet::new();
    let mut printed = 0;
    for r in &unmatched {
        let mut h = DefaultHasher::new();
        (&r.class, &r.case_text).hash(&mut h);
        let id = h.finish();
        if !seen.insert(id) {
            continue;
        }
        if printed >= 25 {
            continue;
        }
        let path = dir.join("replays").join(format!("{}-{:016x}.json", o.property, id));
        let _ = std::fs::write(&path, serde_json::to_string_pretty(r).unwrap());
        println!("VIOLATION property={} replay={}", o.property, path.display());
        println!("  class={} case={} :: {}", r.class, r.case_text, r.msg.chars().take(300).collect::<String>());
        printed += 1;
    }
    for e in &o.machinery_errors {
        eprintln!("MACHINERY-ERROR: {}", e);
    }
    if let Some(c) = o.coverage.as_object_mut() {
        c.insert("known_findings_matched".into(), json!(matched.values().map(|v| v.1).sum::<usize>()));
        c.insert("distinct_unmatched_violations".into(), json!(seen.len()));
        if !o.machinery_errors.is_empty() {
            c.insert("machinery_errors".into(), json!(o.machinery_errors));
        }
    }
    let ev = json!({
        "property_id": o.property,
        "tier": o.tier,
        "seed": o.seed,
        "level": "model_checking",
        "coverage": o.coverage,
        "assumptions": o.assumptions,
        "wall_s": o.wall_s,
        "violations": unmatched.len(),
    });
    let path = dir.join("evidence").join(format!("{}.json", o.property));
    if let Err(e) = std::fs::write(&path, serde_json::to_string_pretty(&ev).unwrap()) {
        eprintln!("machinery: cannot write {}: {}", path.display(), e);
        return 2;
    }
    println!(
        "{} {}: {} violations ({} known), coverage: states={} transitions={} traces={} exhaustive={} wall={:.1}s",
        o.property,
        o.tier,
        unmatched.len(),
        matched.values().map(|v| v.1).sum::<usize>(),
        ev["coverage"]["states"],
        ev["coverage"]["transitions"],
        ev["coverage"]["traces_validated_against_impl"],
        ev["coverage"]["exhaustive"],
        o.wall_s
    );
    if !o.machinery_errors.is_empty() {
        2
    } else if !unmatched.is_empty() {
        1
    } else {
        0
    }
}
