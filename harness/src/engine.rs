//! Parallel job runner: every job is one `Program` explored exhaustively (all schedules up to a
//! preemption bound, all data choices) on its own explorer; jobs are distributed over OS threads.

use crate::exec::{configure_world, run_program};
use crate::model::*;
use serde::{Deserialize, Serialize};
use std::collections::hash_map::DefaultHasher;
use std::collections::HashSet;
use std::hash::{Hash, Hasher};
use std::sync::atomic::{AtomicUsize, Ordering};
use std::sync::{Arc, Mutex};
use std::time::{Duration, Instant};
use stretto_verif_rt as rt;

/// (class, message).  The class is the stable part used to match known findings.
pub type Finding = (String, String);
pub type OracleFn = fn(&Program, &Trace) -> Vec<Finding>;
pub type InterestFn = fn(&Program, &Trace) -> bool;

#[derive(Clone)]
pub struct Job {
    pub program: Program,
    /// preemption bounds to run, ascending (each is a full exploration up to that bound)
    pub bounds: Vec<usize>,
    /// additional explorations in deviation-bounded mode (non-default picks at blocking points cost too)
    #[allow(dead_code)]
    pub dev_bounds: Vec<usize>,
    pub tag: String,
}

#[derive(Clone, Debug, Serialize, Deserialize)]
pub struct FoundViolation {
    pub class: String,
    pub msg: String,
    pub program: Program,
    pub bound: usize,
    pub choices: Vec<usize>,
    pub tag: String,
    /// the schedule was recorded in deviation-bounded mode
    #[serde(default)]
    pub deviation_mode: bool,
}

#[derive(Default)]
pub struct Agg {
    pub programs: u64,
    pub executions: u64,
    pub steps: u64,
    pub points: u64,
    pub select_ties: u64,
    pub states: HashSet<u64>,
    pub interesting: HashSet<u64>,
    pub interesting_execs: u64,
    pub violations: Vec<FoundViolation>,
    pub violating_programs: u64,
    /// per bound: how many programs completed an exhaustive exploration at it
    pub completed_at: std::collections::BTreeMap<usize, u64>,
    pub incomplete: Vec<String>,
    pub preempt_hist: [u64; 6],
    pub builder_rejected: u64,
    pub samples: Vec<serde_json::Value>,
    pub machinery_errors: Vec<String>,
    pub max_depth: usize,
    /// per job tag: (programs, executions)
    pub per_tag: std::collections::BTreeMap<String, (u64, u64)>,
    /// (executions, bound, program) of the most expensive explorations
    pub heaviest: Vec<(u64, usize, String)>,
    /// raw outcome hashes per job index (only if RunCfg::keep_job_states)
    pub job_states: std::collections::HashMap<usize, HashSet<u64>>,
}

pub fn trace_hash(t: &Trace) -> u64 {
    let mut h = DefaultHasher::new();
    for r in &t.recs {
        (r.th, r.idx, &r.res).hash(&mut h);
    }
    for e in &t.ledger {
        (e.kind, e.val, e.cost).hash(&mut h);
    }
    if let Some(s) = t.snaps.last() {
        for e in &s.entries {
            (e.index, e.conflict, e.value, e.d_ns).hash(&mut h);
        }
        let mut kc = s.policy.key_costs.clone();
        kc.sort();
        (s.policy.used, s.policy.max_cost, kc, s.len).hash(&mut h);
        s.buckets.hash(&mut h);
        if let Some(m) = &s.metrics {
            (m.hits, m.misses, m.keys_added, m.keys_evicted, m.cost_added, m.cost_evicted, m.sets_dropped, m.sets_rejected, m.gets_kept, m.gets_dropped)
                .hash(&mut h);
        }
    }
    h.finish()
}

/// What a user can observe through the API: results, callbacks (expiry evictions excluded: their
/// timing within the allowed delay may differ), logically live entries and their charges, metrics.
pub fn observable_hash(t: &Trace) -> u64 {
    let mut h = DefaultHasher::new();
    let mut recs: Vec<&Rec> = t.recs.iter().collect();
    recs.sort_by_key(|r| (r.th, r.idx));
    for r in recs {
        (r.th, r.idx, &r.res).hash(&mut h);
    }
    // a value whose TTL had elapsed when it was handed back: whether the sweep (on_evict) or a
    // later remove / overwrite (on_exit) got to it first depends on tick timing within the allowed delay
    let expired_then = |e: &CbEvent| -> bool {
        if e.kind == CbKind::Evict && e.exp_expired == Some(true) {
            return true;
        }
        e.val
            .and_then(|v| t.recs.iter().find(|r| r.wrote == Some(v)))
            .map(|w| match w.op {
                Op::Ins { ttl_ms, .. } if ttl_ms > 0 => e.now_ns >= w.call_ns + ttl_ms as u128 * 1_000_000,
                _ => false,
            })
            .unwrap_or(false)
    };
    let mut cbs: Vec<(CbKind, Option<Val>, i64)> = t.ledger.iter().filter(|e| !expired_then(e)).map(|e| (e.kind, e.val, e.cost)).collect();
    cbs.sort_by_key(|c| (c.1, c.2));
    for c in cbs {
        (c.0 as u8, c.1, c.2).hash(&mut h);
    }
    if let Some(s) = t.snaps.last() {
        let mut live: Vec<(u64, Val, i64)> = s
            .entries
            .iter()
            .filter(|e| s.alive(e))
            .map(|e| (e.index, e.value, s.policy.key_costs.iter().find(|k| k.0 == e.index).map(|k| k.1).unwrap_or(-1)))
            .collect();
        live.sort();
        live.hash(&mut h);
        if let Some(m) = &s.metrics {
            (m.hits, m.misses, m.sets_dropped, m.sets_rejected, m.gets_kept, m.gets_dropped).hash(&mut h);
        }
    }
    h.finish()
}

/// What client 0 observes (its results, the callbacks for ITS values, the final live entries,
/// charges and metrics): used to compare `prefix; clear; suffix` with `suffix` on a fresh cache,
/// where the prefix runs as the deterministic setup and the suffix as client 0.
pub fn client0_hash(t: &Trace) -> u64 {
    let mut h = DefaultHasher::new();
    let mut recs: Vec<&Rec> = t.recs.iter().filter(|r| r.th == 0).collect();
    recs.sort_by_key(|r| r.idx);
    for r in recs {
        // the first operation of the "clear issued by the client" differential pairs is the clear
        // itself on one side and a no-op on the other: only that it returned is compared
        if r.idx == 0 && matches!(r.op, crate::model::Op::Clear | crate::model::Op::Settle) {
            continue;
        }
        (r.idx, &r.res).hash(&mut h);
    }
    let mine = |v: &Val| v.seq / 1000 == 1;
    let mut cbs: Vec<(u8, Val, i64)> = t.ledger.iter().filter_map(|e| e.val.filter(|v| mine(v)).map(|v| (e.kind as u8, v, e.cost))).collect();
    cbs.sort();
    cbs.hash(&mut h);
    if let Some(s) = t.snaps.last() {
        let mut live: Vec<(u64, Val, u128)> = s.entries.iter().map(|e| (e.index, e.value, e.d_ns)).collect();
        live.sort();
        live.hash(&mut h);
        let mut kc = s.policy.key_costs.clone();
        kc.sort();
        (s.policy.used, kc, s.len).hash(&mut h);
        if let Some(m) = &s.metrics {
            (m.hits, m.misses, m.keys_added, m.keys_updated, m.keys_evicted, m.cost_added, m.cost_evicted, m.sets_dropped, m.sets_rejected, m.gets_kept, m.gets_dropped).hash(&mut h);
        }
    }
    h.finish()
}

struct Acc {
    states: HashSet<u64>,
    interesting: HashSet<u64>,
    interesting_execs: u64,
    rejected: bool,
}

pub struct RunCfg {
    pub threads: usize,
    pub deadline: Instant,
    pub max_exec_per_job: u64,
    pub max_violations_per_job: usize,
    pub stop_on_first: bool,
    pub keep_job_states: bool,
    /// hash of what counts as one outcome (default: `trace_hash`)
    pub state_hash: fn(&Trace) -> u64,
}
impl RunCfg {
    pub fn new(secs: u64) -> Self {
        RunCfg {
            threads: std::thread::available_parallelism().map(|n| n.get()).unwrap_or(8).min(16),
            deadline: Instant::now() + Duration::from_secs(secs),
            max_exec_per_job: 3_000_000,
            max_violations_per_job: 3,
            stop_on_first: false,
            keep_job_states: false,
            state_hash: trace_hash,
        }
    }
}

fn make_body(p: Arc<Program>, oracle: OracleFn, interest: InterestFn, acc: Arc<Mutex<Acc>>, state_hash: fn(&Trace) -> u64) -> Arc<dyn Fn() + Send + Sync> {
    Arc::new(move || match run_program(&p) {
        Ok(t) => {
            for (class, msg) in oracle(&p, &t) {
                rt::violation(&class, msg);
            }
            let h = state_hash(&t);
            let mut a = acc.lock().unwrap();
            a.states.insert(h);
            if interest(&p, &t) {
                a.interesting.insert(h);
                a.interesting_execs += 1;
            }
        }
        Err(e) => {
            for (class, msg) in crate::checks::o_build_error(&p, &e) {
                rt::violation(&class, msg);
            }
            acc.lock().unwrap().rejected = true;
        }
    })
}

fn new_acc() -> Acc {
    Acc { states: HashSet::new(), interesting: HashSet::new(), interesting_execs: 0, rejected: false }
}

/// per-thread cursor over the shared job queue
struct Cursor {
    job: Option<usize>,
    bound_ix: usize,
    local_states: HashSet<u64>,
    local_int: HashSet<u64>,
    violated: bool,
}

pub fn run_jobs(jobs: Vec<Job>, oracle: OracleFn, interest: InterestFn, rc: RunCfg) -> Agg {
    let jobs = Arc::new(jobs);
    let next = Arc::new(AtomicUsize::new(0));
    let agg = Arc::new(Mutex::new(Agg::default()));
    let rc = Arc::new(rc);
    let stop = Arc::new(std::sync::atomic::AtomicBool::new(false));
    let mut hs = Vec::new();
    for _ in 0..rc.threads.max(1) {
        let (jobs, next, agg, rc, stop) = (jobs.clone(), next.clone(), agg.clone(), rc.clone(), stop.clone());
        hs.push(
            std::thread::Builder::new()
                .stack_size(16 << 20)
                .spawn(move || {
                    let cur = std::rc::Rc::new(std::cell::RefCell::new(Cursor {
                        job: None,
                        bound_ix: 0,
                        local_states: HashSet::new(),
                        local_int: HashSet::new(),
                        violated: false,
                    }));
                    let acc = Arc::new(Mutex::new(new_acc()));
                    // finish the bookkeeping of the job the cursor points at
                    let close_job = {
                        let (jobs, agg, rc, stop) = (jobs.clone(), agg.clone(), rc.clone(), stop.clone());
                        move |c: &mut Cursor| {
                            if let Some(i) = c.job.take() {
                                let job = &jobs[i];
                                let mut a = agg.lock().unwrap();
                                a.programs += 1;
                                a.per_tag.entry(job.tag.clone()).or_insert((0, 0)).0 += 1;
                                if c.violated {
                                    a.violating_programs += 1;
                                    if rc.stop_on_first {
                                        stop.store(true, Ordering::SeqCst);
                                    }
                                }
                                let mut ph = DefaultHasher::new();
                                job.program.hash(&mut ph);
                                let ph = ph.finish().rotate_left(17);
                                if rc.keep_job_states {
                                    a.job_states.insert(i, c.local_states.clone());
                                }
                                a.states.extend(c.local_states.iter().map(|s| s ^ ph));
                                a.interesting.extend(c.local_int.iter().map(|s| s ^ ph));
                                if a.samples.len() < 6 && (i % 97 == 0 || a.samples.is_empty()) {
                                    a.samples.push(serde_json::json!({
                                        "program": job.program.short(),
                                        "bounds": job.bounds,
                                        "distinct_outcomes": c.local_states.len(),
                                    }));
                                }
                                c.local_states.clear();
                                c.local_int.clear();
                                c.violated = false;
                                c.bound_ix = 0;
                            }
                        }
                    };
                    let source = {
                        let (jobs, next, agg, rc, stop, cur, acc) = (jobs.clone(), next.clone(), agg.clone(), rc.clone(), stop.clone(), cur.clone(), acc.clone());
                        let mut close_job = close_job.clone();
                        move || -> Option<rt::sched::StreamJob> {
                            let mut c = cur.borrow_mut();
                            loop {
                                if let Some(i) = c.job {
                                    let job = &jobs[i];
                                    if !c.violated && c.bound_ix < job.bounds.len() + job.dev_bounds.len() {
                                        let dev = c.bound_ix >= job.bounds.len();
                                        let b = if dev { job.dev_bounds[c.bound_ix - job.bounds.len()] } else { job.bounds[c.bound_ix] };
                                        c.bound_ix += 1;
                                        let p = Arc::new(job.program.clone());
                                        configure_world(&p);
                                        *acc.lock().unwrap() = new_acc();
                                        return Some(rt::sched::StreamJob {
                                            cfg: rt::ExploreCfg {
                                                bound: b,
                                                max_executions: rc.max_exec_per_job,
                                                deadline: Some(rc.deadline),
                                                max_violations: rc.max_violations_per_job,
                                                count_free_switches: dev,
                                                ..Default::default()
                                            },
                                            fixed: None,
                                            body: make_body(p, oracle, interest, acc.clone(), rc.state_hash),
                                        });
                                    }
                                    close_job(&mut c);
                                }
                                let i = next.fetch_add(1, Ordering::SeqCst);
                                if i >= jobs.len() {
                                    return None;
                                }
                                if stop.load(Ordering::SeqCst) || Instant::now() >= rc.deadline {
                                    agg.lock().unwrap().incomplete.push(format!("not started (time cap): {}", jobs[i].program.short()));
                                    continue;
                                }
                                c.job = Some(i);
                                c.bound_ix = 0;
                            }
                        }
                    };
                    let sink = {
                        let (jobs, agg, cur, acc) = (jobs.clone(), agg.clone(), cur.clone(), acc.clone());
                        move |out: rt::ExploreOut| {
                            let mut c = cur.borrow_mut();
                            let i = match c.job {
                                Some(i) => i,
                                None => return,
                            };
                            let job = &jobs[i];
                            let ix = c.bound_ix.saturating_sub(1);
                            let dev = ix >= job.bounds.len();
                            let b = if dev { job.dev_bounds[ix - job.bounds.len()] } else { job.bounds[ix] };
                            let acc = std::mem::replace(&mut *acc.lock().unwrap(), new_acc());
                            let mut a = agg.lock().unwrap();
                            a.executions += out.executions;
                            a.per_tag.entry(job.tag.clone()).or_insert((0, 0)).1 += out.executions;
                            a.heaviest.push((out.executions, b, job.program.short()));
                            a.heaviest.sort_by(|x, y| y.0.cmp(&x.0));
                            a.heaviest.truncate(5);
                            a.steps += out.steps;
                            a.points += out.points;
                            a.select_ties += out.select_ties;
                            a.interesting_execs += acc.interesting_execs;
                            a.max_depth = a.max_depth.max(out.max_depth);
                            for k in 0..6 {
                                a.preempt_hist[k] += out.preempt_hist[k];
                            }
                            if acc.rejected {
                                a.builder_rejected += 1;
                            }
                            c.local_states.extend(acc.states);
                            c.local_int.extend(acc.interesting);
                            if let Some(nd) = &out.nondeterminism {
                                a.machinery_errors.push(format!("{} :: {}", job.program.short(), nd));
                            }
                            if out.complete {
                                *a.completed_at.entry(if dev { 100 + b } else { b }).or_insert(0) += 1;
                            } else if out.violations.is_empty() {
                                a.incomplete.push(format!("bound {} {}: {}", b, out.cap.clone().unwrap_or_default(), job.program.short()));
                            }
                            if !out.violations.is_empty() {
                                c.violated = true;
                                for v in out.violations {
                                    a.violations.push(FoundViolation {
                                        class: v.kind,
                                        msg: v.msg,
                                        program: job.program.clone(),
                                        bound: v.bound,
                                        choices: v.choices,
                                        tag: job.tag.clone(),
                                        deviation_mode: dev,
                                    });
                                }
                            }
                        }
                    };
                    rt::sched::explore_stream(Box::new(source), Box::new(sink));
                    let mut close_job = close_job;
                    close_job(&mut cur.borrow_mut());
                })
                .unwrap(),
        );
    }
    for h in hs {
        if h.join().is_err() {
            agg.lock().unwrap().machinery_errors.push("explorer thread panicked".into());
        }
    }
    Arc::try_unwrap(agg).ok().unwrap().into_inner().unwrap()
}

/// Replay one recorded violation twice; returns (same observations both times, classes seen).
pub fn replay_violation(v: &FoundViolation, oracle: OracleFn) -> (bool, Vec<Finding>, Vec<String>) {
    let mut hashes = Vec::new();
    let mut found: Vec<Finding> = Vec::new();
    let mut errs = Vec::new();
    for _ in 0..2 {
        let p = Arc::new(v.program.clone());
        configure_world(&p);
        let seen = Arc::new(Mutex::new(None));
        let seen2 = seen.clone();
        let body: Arc<dyn Fn() + Send + Sync> = Arc::new(move || {
            if let Ok(t) = run_program(&p) {
                for (class, msg) in oracle(&p, &t) {
                    rt::violation(&class, msg);
                }
                *seen2.lock().unwrap() = Some(trace_hash(&t));
            }
        });
        let out = rt::replay(rt::ExploreCfg { bound: v.bound, count_free_switches: v.deviation_mode, ..Default::default() }, v.choices.clone(), body);
        if let Some(nd) = out.nondeterminism {
            errs.push(nd);
        }
        let mut classes: Vec<Finding> = out.violations.iter().map(|x| (x.kind.clone(), x.msg.clone())).collect();
        classes.sort();
        hashes.push((*seen.lock().unwrap(), classes.iter().map(|c| c.0.clone()).collect::<Vec<_>>()));
        found = classes;
    }
    (hashes[0] == hashes[1], found, errs)
}

/// Debug aid: run the recorded schedule once and print the trace.
pub fn print_trace(v: &FoundViolation) {
    let p = Arc::new(v.program.clone());
    configure_world(&p);
    let body: Arc<dyn Fn() + Send + Sync> = Arc::new(move || match run_program(&p) {
        Ok(t) => {
            let mut recs: Vec<&Rec> = t.recs.iter().collect();
            recs.sort_by_key(|r| r.call);
            for r in recs {
                println!("  rec th{} #{} {:<14} call {:>3} ret {:>3} at +{}ms -> {:?}", r.th, r.idx, r.op.short(), r.call, r.ret, (r.call_ns - rt::world::E0_NS) / 1_000_000, r.res);
            }
            for e in &t.ledger {
                println!("  cb  {:?} {:?} cost {} at {} expired {:?}", e.kind, e.val, e.cost, e.at, e.exp_expired);
            }
            for e in &t.policy_events {
                println!("  pol at {} used {} max {} {:?}", e.at, e.snap.used, e.snap.max_cost, e.snap.key_costs);
            }
            for s in &t.snaps {
                println!("  snap at {} q={} +{}ms entries {:?} policy {:?} buckets {:?} len {} workers {:?} metrics {:?}", s.at, s.quiescent, (s.now_ns - rt::world::E0_NS) / 1_000_000, s.entries.iter().map(|e| (e.index, e.value.seq, e.d_ns / 1_000_000)).collect::<Vec<_>>(), s.policy, s.buckets, s.len, s.workers, s.metrics.as_ref().map(|m| (m.hits, m.misses, m.keys_added, m.keys_evicted, m.cost_added, m.cost_evicted, m.sets_dropped, m.sets_rejected)));
            }
            for r in &t.evict_rounds {
                println!("  round {:?}", r);
            }
        }
        Err(e) => println!("  builder rejected: {}", e),
    });
    let out = rt::replay(rt::ExploreCfg { bound: v.bound, count_free_switches: v.deviation_mode, ..Default::default() }, v.choices.clone(), body);
    for x in &out.violations {
        println!("  engine: {} {}", x.kind, x.msg);
    }
}
