//! Per-property program generators and oracle sets (DESIGN §6).

use std::collections::BTreeMap;
use crate::engine::{Finding, InterestFn, Job, OracleFn};
use crate::model::*;
use crate::oracle::*;

pub struct Spec {
    pub id: &'static str,
    pub jobs: Vec<Job>,
    pub oracle: OracleFn,
    pub interesting: InterestFn,
    pub rule: String,
    pub assumptions: Vec<String>,
}

/// a settle after every operation
pub fn settled(ops: &[Op]) -> Vec<Op> {
    let mut v = Vec::with_capacity(ops.len() * 2);
    for o in ops {
        v.push(*o);
        if *o != Op::Settle {
            v.push(Op::Settle);
        }
    }
    v
}

/// all sequences of exactly `depth` symbols
pub fn sequences(alpha: &[Op], depth: usize) -> Vec<Vec<Op>> {
    let mut out: Vec<Vec<Op>> = vec![vec![]];
    for _ in 0..depth {
        let mut next = Vec::with_capacity(out.len() * alpha.len());
        for s in &out {
            for a in alpha {
                let mut t = s.clone();
                t.push(*a);
                next.push(t);
            }
        }
        out = next;
    }
    out
}

fn single(cfg: &Cfg, flavor: Flavor, ops: Vec<Op>) -> Program {
    Program { cfg: cfg.clone(), flavor, setup: vec![], threads: vec![ops], post: vec![] }
}

fn job(p: Program, bounds: &[usize], tag: &str) -> Job {
    Job { program: p, bounds: bounds.to_vec(), dev_bounds: vec![], tag: tag.to_string() }
}

fn job_dev(p: Program, bounds: &[usize], dev: &[usize], tag: &str) -> Job {
    Job { program: p, bounds: bounds.to_vec(), dev_bounds: dev.to_vec(), tag: tag.to_string() }
}

fn ins(k: u64, c: i64, ttl_ms: u64) -> Op {
    Op::Ins { k, c, ttl_ms }
}

fn ins_ns(k: u64, c: i64, ns: u64) -> Op {
    Op::Ins { k, c, ttl_ms: TTL_NS_TAG | ns }
}

fn has_evict(t: &Trace) -> bool {
    t.ledger.iter().any(|e| e.kind == CbKind::Evict)
}
fn has_expiry(t: &Trace) -> bool {
    t.ledger.iter().any(|e| e.kind == CbKind::Evict && e.exp_expired == Some(true))
}

pub const COMMON_ASSUMPTIONS: &[&str] = &[
    "shim fidelity: parking_lot / crossbeam-channel / wg / async-io / async-channel are replaced by the models in /verif/rt (semantics in DESIGN appendix A, self-checked by ./check setup)",
    "sequentially consistent atomics (stretto uses SeqCst throughout); time is virtual and only moves at A(..) operations",
    "scheduling-point filter: only the shard locks of the program's keys are preemption candidates (DESIGN §4.3)",
    "coverage is complete for the listed alphabet / depth / preemption bound only",
];

// ------------------------------------------------------------------------------------------------

fn o_c04(p: &Program, t: &Trace) -> Vec<Finding> {
    let mut v = o_map(p, t);
    // (unsettled histories racing the sweep: an entry re-inserted without TTL is not lost to it)
    v.extend(o_no_ttl_stays(p, t));
    v.extend(o_agree(p, t));
    v.extend(o_after_clear_kept(p, t));
    v.extend(o_lookup(p, t));
    v
}

/// Unsettled single-client histories with ample capacity: a key written exactly once in the whole
/// program, by an insert without TTL that was called after the last clear() had returned and that
/// returned true, and never removed, is retrievable at every lookup after the next quiescent point.
fn o_after_clear_kept(p: &Program, t: &Trace) -> Vec<Finding> {
    let mut out = Vec::new();
    if is_settled(p) || p.threads.len() != 1 || p.cfg.max_cost < 100 || p.cfg.validator != ValidatorMode::Always {
        return out;
    }
    let ops = &p.threads[0];
    let last_clear = match ops.iter().rposition(|o| *o == Op::Clear) {
        Some(i) => i,
        None => return out,
    };
    if ops.iter().any(|o| matches!(o, Op::Close | Op::MaxCost { .. })) {
        return out;
    }
    for k in p.keys() {
        let writes: Vec<usize> = ops.iter().enumerate().filter(|(_, o)| matches!(o, Op::Ins { k: k2, .. } | Op::Pres { k: k2, .. } | Op::Mut { k: k2 } if *k2 == k)).map(|(i, _)| i).collect();
        if writes.len() != 1 || writes[0] < last_clear || !matches!(ops[writes[0]], Op::Ins { ttl_ms: 0, .. }) || p.setup.iter().any(|o| o.key() == Some(k)) {
            continue;
        }
        if ops.iter().any(|o| matches!(o, Op::Rem { k: k2 } if *k2 == k)) {
            continue;
        }
        let w = match t.recs.iter().find(|r| r.th == 0 && r.idx == writes[0]) {
            Some(w) if w.res == Res::Bool(true) => w,
            _ => continue,
        };
        let settle_at = match ops.iter().enumerate().find(|(i, o)| *i > writes[0] && **o == Op::Settle) {
            Some((i, _)) => i,
            None => continue,
        };
        for l in t.recs.iter().filter(|r| r.th == 0 && r.idx > settle_at && matches!(r.op, Op::Get { k: k2 } if k2 == k)) {
            if !matches!(&l.res, Res::Val(Some((v, _))) if Some(*v) == w.wrote) {
                out.push(("map-entry-lost".to_string(), format!("{} was issued after clear() had returned (returned true, no TTL, ample capacity) but after quiescence {} returned {:?}", w.op.short(), l.op.short(), l.res)));
                return out;
            }
        }
    }
    out
}

pub fn c04(tier: &str, flavor: Flavor) -> Spec {
    let quick = tier == "quick";
    let keys: &[u64] = if quick { &[1, 2] } else { &[1, 2, 3] };
    let mut alpha = Vec::new();
    for &k in keys {
        for ttl in [0u64, 1000, 2500] {
            alpha.push(ins(k, 1, ttl));
        }
        alpha.push(Op::Pres { k, c: 1 });
        alpha.push(Op::Rem { k });
        // a lookup through get_mut (also of an expired, not yet swept entry) is not a removal
        alpha.push(Op::Mut { k });
    }
    alpha.push(Op::Clear);
    alpha.push(Op::Adv { ms: 500 });
    alpha.push(Op::Adv { ms: 1000 });
    let depth = if quick { 4 } else { 5 };
    let seqs = sequences(&alpha, depth);
    let mut jobs = Vec::new();
    let configs: Vec<(u64, u64)> = if quick {
        vec![(1000, 0), (2000, 500), (500, 0)]
    } else {
        let mut v = Vec::new();
        for i in [500u64, 1000, 2000, 3000] {
            for ph in [0u64, 500] {
                v.push((i, ph));
            }
        }
        v
    };
    for (interval, phase) in &configs {
        let cfg = Cfg { cleanup_ms: *interval, phase_ms: *phase, buffer_size: 8, max_cost: 100, ..Cfg::default() };
        for s in &seqs {
            // every history ends with enough idle time for stale expiry buckets to come due
            let mut ops = s.clone();
            ops.push(Op::Adv { ms: 1000 });
            ops.push(Op::Adv { ms: 1000 });
            for &k in keys {
                ops.push(Op::Get { k });
            }
            jobs.push(job(single(&cfg, flavor, settled(&ops)), &[0], "c04"));
        }
    }
    // work still buffered when clear() is called, and inserts issued right after it returned: the
    // latter are not part of what the clear discards
    {
        let ucfg = Cfg { buffer_size: 8, max_cost: 100, ..Cfg::default() };
        for pre in [vec![], vec![ins(1, 1, 0)], vec![ins(1, 1, 0), ins(2, 1, 0)], vec![ins(1, 1, 0), ins(2, 1, 0), Op::Rem { k: 1 }]] {
            for post in [vec![ins(3, 1, 0)], vec![ins(3, 1, 0), ins(4, 1, 1000)], vec![ins(3, 1, 0), Op::Wait, ins(4, 1, 0)]] {
                let mut ops = pre.clone();
                ops.push(Op::Clear);
                ops.extend(post.iter().copied());
                ops.extend([Op::Settle, Op::Get { k: 3 }, Op::Get { k: 4 }, Op::Get { k: 1 }, Op::Settle]);
                jobs.push(job(single(&ucfg, flavor, ops), &[2], "c04-after-clear"));
            }
        }
    }
    // a validator that refuses overwrites: a refused write changes neither the value nor the deadline
    for validator in [ValidatorMode::Never, ValidatorMode::Newer] {
        let vcfg = Cfg { validator, cleanup_ms: 1000, phase_ms: 0, buffer_size: 8, max_cost: 100, ..Cfg::default() };
        for s in &seqs {
            if s.iter().filter(|o| matches!(o, Op::Ins { .. } | Op::Pres { .. })).count() < 2 {
                continue;
            }
            let mut ops = s.clone();
            ops.push(Op::Adv { ms: 1000 });
            ops.push(Op::Adv { ms: 1000 });
            for &k in keys {
                ops.push(Op::Get { k });
            }
            jobs.push(job(single(&vcfg, flavor, settled(&ops)), &[0], "c04-validator"));
        }
    }
    // the same histories with entries whose charge is exactly zero (cost 0, a Coster valuing
    // everything at 0, internal cost ignored): "any key set whose total cost fits" includes them
    {
        let zcfg = Cfg { cleanup_ms: 1000, phase_ms: 0, buffer_size: 8, max_cost: 100, coster_base: 0, coster_mod: 0, ignore_internal_cost: true, ..Cfg::default() };
        let zero = |o: &Op| match *o {
            Op::Ins { k, ttl_ms, .. } => Op::Ins { k, c: 0, ttl_ms },
            Op::Pres { k, .. } => Op::Pres { k, c: 0 },
            x => x,
        };
        for s in &seqs {
            let mut ops: Vec<Op> = s.iter().map(zero).collect();
            ops.push(Op::Adv { ms: 1000 });
            ops.push(Op::Adv { ms: 1000 });
            for &k in keys {
                ops.push(ins(k, 0, 0));
                ops.push(Op::Get { k });
            }
            jobs.push(job(single(&zcfg, flavor, settled(&ops)), &[0], "c04-zero-charge"));
        }
    }
    // updates that change the charge of a resident key (up, down, down to nothing), on a cache
    // that is nearly full: every history whose running total never exceeds the budget keeps all
    // its keys (budget 10, Coster 0, internal cost ignored)
    {
        let ccfg = Cfg { max_cost: 10, coster_base: 0, coster_mod: 0, ignore_internal_cost: true, cleanup_ms: 1000, ..Cfg::default() };
        let ca = [ins(1, 8, 0), ins(1, 0, 0), ins(1, 2, 0), ins(2, 8, 0), ins(2, 0, 0), ins(3, 2, 0), Op::Pres { k: 1, c: 0 }, Op::Pres { k: 1, c: 8 }, Op::Rem { k: 1 }];
        for s in sequences(&ca, if quick { 4 } else { 5 }) {
            let mut charge: BTreeMap<u64, i64> = BTreeMap::new();
            let mut fits = true;
            for o in &s {
                match *o {
                    Op::Ins { k, c, .. } => {
                        charge.insert(k, c);
                    }
                    Op::Pres { k, c } => {
                        if let Some(x) = charge.get_mut(&k) {
                            *x = c;
                        }
                    }
                    Op::Rem { k } => {
                        charge.remove(&k);
                    }
                    _ => {}
                }
                if charge.values().sum::<i64>() > 10 {
                    fits = false;
                }
            }
            if !fits || charge.len() < 2 {
                continue;
            }
            let mut ops = s.clone();
            ops.extend([Op::Get { k: 1 }, Op::Get { k: 2 }, Op::Get { k: 3 }]);
            jobs.push(job(single(&ccfg, flavor, settled(&ops)), &[0], "c04-cost-changes"));
        }
    }
    // the client re-inserts / refreshes keys whose TTL has just run out while the sweep for their
    // bucket is due (the clock jumps past the deadlines, no quiescence before the client goes on)
    jobs.extend(tick_race_jobs(flavor, quick, "c04-tick-race"));
    Spec {
        id: "C04",
        jobs,
        oracle: o_c04,
        interesting: |_, t| t.ledger.iter().any(|e| e.kind != CbKind::Exit) || t.recs.iter().any(|r| matches!(r.res, Res::Val(Some(_)))),
        rule: format!(
            "every history of depth {} over {} symbols (I(k,ttl in 0/1s/2.5s), P(k), R(k), M(k), X, A(0.5s), A(1s); keys {:?}) x {} (cleanup interval, clock phase) settings, each followed by 2 s of idle time and a lookup of every key, quiescence after every operation, every scheduling/select choice at preemption bound 0; the same histories once more with zero-charge entries (cost 0, Coster 0) and a final re-insert of every key; every history of depth 4/5 over {{I(1,8), I(1,0), I(1,2), I(2,8), I(2,0), I(3,2), P(1,0), P(1,8), R(1)}} whose running total stays within a budget of 10 (updates lowering a charge free the room they claim to free); exact comparison with a reference map after every operation; non-trivial = a callback fired or a lookup hit",
            depth,
            alpha.len(),
            keys,
            configs.len()
        ),
        assumptions: COMMON_ASSUMPTIONS.iter().map(|s| s.to_string()).collect(),
    }
}

// ------------------------------------------------------------------------------------------------

fn o_c03(p: &Program, t: &Trace) -> Vec<Finding> {
    if p.cfg.keymode != KeyMode::Transparent {
        // keys sharing an index hash: the slot model instead of the per-key map
        let mut v = o_collide(p, t);
        v.extend(o_hard_deadline(p, t));
        return v;
    }
    let mut v = o_map(p, t);
    v.extend(o_no_ttl_stays(p, t));
    v.extend(o_hard_deadline(p, t));
    v
}

/// For every program, settled or not: a value inserted with TTL d is never returned by a lookup
/// (nor reported by get_ttl) that begins d or more after the moment insert was CALLED, however
/// long the item sat in the insert buffer; and while it is served, the remaining time reported is
/// at most d minus its age.
pub fn o_hard_deadline(p: &Program, t: &Trace) -> Vec<Finding> {
    let mut out = Vec::new();
    let _ = p;
    for w in t.recs.iter() {
        let (v, ttl_ms) = match (w.op, w.wrote) {
            (Op::Ins { ttl_ms, .. }, Some(v)) if ttl_ms > 0 => (v, ttl_ms),
            _ => continue,
        };
        let d = ttl_len_ns(ttl_ms);
        for l in t.recs.iter().filter(|l| l.call > w.call) {
            if let (Op::Get { .. } | Op::Mut { .. }, Res::Val(Some((x, rem)))) = (&l.op, &l.res) {
                if *x != v {
                    continue;
                }
                if l.call_ns >= w.call_ns + d {
                    out.push(("served-after-ttl".to_string(), format!("{} returned {:?} at age {} ms although it was inserted with a TTL of {} ms", l.op.short(), v, (l.call_ns - w.call_ns) / 1_000_000, ttl_ms)));
                    return out;
                }
                if let Some(rem) = rem {
                    if *rem != u128::MAX && *rem > w.call_ns + d - l.call_ns {
                        out.push(("ttl-longer-than-given".to_string(), format!("{} reports {} ns remaining for {:?} at age {} ms, more than TTL minus age ({} ns)", l.op.short(), rem, v, (l.call_ns - w.call_ns) / 1_000_000, w.call_ns + d - l.call_ns)));
                        return out;
                    }
                }
            }
        }
    }
    out
}

/// Unsettled single-client histories with ample capacity (the tick-race family): a key that is
/// written exactly once by the client, by an insert WITHOUT TTL that returned true, and never
/// removed, is returned by every lookup that follows a later quiescent point - an entry without
/// TTL never becomes invisible because of time, whatever the sweep is doing meanwhile.
fn o_no_ttl_stays(p: &Program, t: &Trace) -> Vec<Finding> {
    let mut out = Vec::new();
    if is_settled(p) || p.threads.len() != 1 || p.cfg.max_cost < 100 || p.cfg.validator != ValidatorMode::Always {
        return out;
    }
    let ops = &p.threads[0];
    for k in p.keys() {
        let writes: Vec<usize> = ops.iter().enumerate().filter(|(_, o)| matches!(o, Op::Ins { k: k2, .. } | Op::Pres { k: k2, .. } | Op::Mut { k: k2 } if *k2 == k)).map(|(i, _)| i).collect();
        let touched = ops.iter().any(|o| matches!(o, Op::Rem { k: k2 } if *k2 == k) || matches!(o, Op::Clear | Op::Close | Op::MaxCost { .. }));
        if writes.len() != 1 || touched || !matches!(ops[writes[0]], Op::Ins { ttl_ms: 0, .. }) {
            continue;
        }
        let w = match t.recs.iter().find(|r| r.th == 0 && r.idx == writes[0]) {
            Some(w) if w.res == Res::Bool(true) => w,
            _ => continue,
        };
        let settle_at = match ops.iter().enumerate().find(|(i, o)| *i > writes[0] && **o == Op::Settle) {
            Some((i, _)) => i,
            None => continue,
        };
        for l in t.recs.iter().filter(|r| r.th == 0 && r.idx > settle_at && matches!(r.op, Op::Get { k: k2 } if k2 == k)) {
            if !matches!(&l.res, Res::Val(Some((v, _))) if Some(*v) == w.wrote) {
                out.push(("no-ttl-entry-vanished".to_string(), format!("{} (no TTL, returned true, ample capacity) but after quiescence {} returned {:?}", w.op.short(), l.op.short(), l.res)));
                return out;
            }
        }
    }
    out
}

pub fn c03(tier: &str, flavor: Flavor) -> Spec {
    let quick = tier == "quick";
    let ttls: &[u64] = &[300, 1000, 1500, 2500, 3_600_000];
    let phases: &[u64] = &[0, 350, 950];
    let reins_at: Vec<u64> = if quick { vec![250, 1000, 1750] } else { (1..=8).map(|i| i * 250).collect() };
    let d2s: &[Option<u64>] = &[Some(0), Some(500), Some(2000)];
    let intervals: &[u64] = &[500, 2000];
    let mut jobs = Vec::new();
    let probe = |ops: &mut Vec<Op>| {
        ops.push(Op::Get { k: 1 });
        ops.push(Op::Ttl { k: 1 });
    };
    for &d in ttls {
        for &ph in phases {
            for &iv in intervals {
                for neighbour in 0..4 {
                    // (instant, new TTL, preceded by remove(1))
                    let mut variants: Vec<Option<(u64, u64, bool)>> = vec![None];
                    for &r in &reins_at {
                        for d2 in d2s {
                            variants.push(Some((r, d2.unwrap(), false)));
                        }
                    }
                    if quick && neighbour > 0 {
                        variants.truncate(4);
                    }
                    if neighbour == 0 {
                        // the key is removed (also while expired but not yet swept) and inserted again
                        for &r in &reins_at {
                            for d2 in d2s {
                                variants.push(Some((r, d2.unwrap(), true)));
                            }
                        }
                    }
                    for reins in variants {
                        let cfg = Cfg { cleanup_ms: iv, phase_ms: ph, ..Cfg::default() };
                        let mut ops = vec![ins(1, 1, d)];
                        // a neighbour sharing the expiry second
                        match neighbour {
                            1 => ops.push(ins(2, 1, d)),
                            2 => {
                                ops.push(ins(2, 1, d));
                                ops.push(ins(2, 1, d + 3000));
                            }
                            3 => {
                                ops.push(ins(2, 1, d));
                                ops.push(Op::Rem { k: 2 });
                            }
                            _ => {}
                        }
                        // time line in ns relative to the insert
                        let d_ns = d * 1_000_000;
                        let mut deadline = d_ns;
                        let horizon = if d > 10_000 { 3_000_000_000 } else { d_ns + 3_000_000_000 };
                        let mut events: Vec<(u64, u8)> = Vec::new(); // (time, kind) kind 0 = probe, 1 = reinsert
                        let mut tt = 250_000_000;
                        while tt <= horizon {
                            events.push((tt, 0));
                            tt += 250_000_000;
                        }
                        if let Some((r, d2, _)) = reins {
                            events.push((r * 1_000_000, 1));
                            if r * 1_000_000 < deadline || true {
                                deadline = if d2 == 0 { u64::MAX } else { r * 1_000_000 + d2 * 1_000_000 };
                            }
                        }
                        if deadline != u64::MAX {
                            for x in [deadline - 1, deadline, deadline + 1] {
                                events.push((x, 0));
                            }
                        }
                        if d <= 10_000 {
                            for x in [d_ns - 1, d_ns, d_ns + 1] {
                                events.push((x, 0));
                            }
                        }
                        events.sort();
                        events.dedup();
                        let mut now = 0u64;
                        for (at, kind) in events {
                            if at > now {
                                ops.push(Op::AdvNs { ns: at - now });
                                now = at;
                            }
                            if kind == 1 {
                                let (_, d2, rem_first) = reins.unwrap();
                                if rem_first {
                                    ops.push(Op::Rem { k: 1 });
                                }
                                ops.push(ins(1, 1, d2));
                            }
                            probe(&mut ops);
                        }
                        if d > 10_000 {
                            // jump to the far deadline
                            let dl = if deadline == u64::MAX { d_ns } else { deadline };
                            if dl > now + 1 {
                                ops.push(Op::AdvNs { ns: dl - 1 - now });
                                probe(&mut ops);
                                ops.push(Op::AdvNs { ns: 1 });
                                probe(&mut ops);
                                ops.push(Op::AdvNs { ns: 1 });
                                probe(&mut ops);
                            }
                        }
                        // get_mut honours the deadline as well
                        ops.push(Op::Mut { k: 1 });
                        if neighbour == 0 && reins.map(|r| !r.2).unwrap_or(false) {
                            // the re-insert refused by the validator: the first deadline stays in force
                            let vcfg = Cfg { validator: ValidatorMode::Never, ..cfg.clone() };
                            jobs.push(job(single(&vcfg, flavor, settled(&ops)), &[0], "c03-vetoed-reinsert"));
                        }
                        jobs.push(job(single(&cfg, flavor, settled(&ops)), &[0], "c03"));
                    }
                }
            }
        }
    }
    jobs.extend(tick_race_jobs(flavor, quick, "c03-tick-race"));
    // time passing between the insert call and its application by the processor: the deadline
    // counts from the call
    for ttl in [500u64, 1000, 1500] {
        for lag in [300u64, 600, 1200] {
            for cfg in [Cfg::default(), Cfg { cleanup_ms: 3_600_000, ..Cfg::default() }] {
                let ops = vec![ins(1, 1, ttl), ins(2, 1, 0), Op::Adv { ms: lag }, Op::Settle, Op::Get { k: 1 }, Op::Ttl { k: 1 }, Op::Adv { ms: 250 }, Op::Get { k: 1 }, Op::Mut { k: 1 }, Op::Adv { ms: 500 }, Op::Get { k: 1 }, Op::Get { k: 2 }];
                jobs.push(job(single(&cfg, flavor, ops), &[1], "c03-buffered-insert"));
            }
        }
    }
    // the TTL is a Duration, not a count of milliseconds: sub-millisecond TTLs on a fresh key and as
    // the new deadline of a resident key without TTL; and the largest Duration there is
    for ns in [1u64, 500_000, 999_999, 1_000_001] {
        for cfg in [Cfg::default(), Cfg { cleanup_ms: 3_600_000, ..Cfg::default() }, Cfg { phase_ms: 999, ..Cfg::default() }] {
            let mut ops = vec![ins_ns(1, 1, ns), ins(2, 1, 0), Op::Get { k: 1 }, Op::Ttl { k: 1 }];
            if ns > 1 {
                ops.push(Op::AdvNs { ns: ns - 1 });
                ops.push(Op::Get { k: 1 });
                ops.push(Op::Ttl { k: 1 });
            }
            ops.extend([Op::AdvNs { ns: 1 }, Op::Get { k: 1 }, Op::Ttl { k: 1 }, Op::Mut { k: 1 }, Op::Adv { ms: 50 }, Op::Get { k: 1 }, Op::Ttl { k: 1 }]);
            ops.extend([ins_ns(2, 1, ns), Op::Get { k: 2 }, Op::AdvNs { ns }, Op::Get { k: 2 }, Op::Ttl { k: 2 }, Op::Mut { k: 2 }, Op::Adv { ms: 3000 }, Op::Get { k: 2 }, Op::Ttl { k: 2 }, Op::Get { k: 1 }]);
            jobs.push(job(single(&cfg, flavor, settled(&ops)), &[0], "c03-sub-ms-ttl"));
        }
    }
    for cfg in [Cfg::default(), Cfg { phase_ms: 500, cleanup_ms: 500, ..Cfg::default() }] {
        let ops = vec![
            // (at age 0 the remaining time of such an entry equals the "no expiry" answer: probed later)
            ins(1, 1, TTL_MAX),
            Op::Adv { ms: 1 },
            Op::Get { k: 1 },
            Op::Ttl { k: 1 },
            Op::Adv { ms: 3000 },
            Op::Get { k: 1 },
            Op::Ttl { k: 1 },
            ins(1, 1, TTL_MAX),
            Op::Adv { ms: 1 },
            Op::Get { k: 1 },
            ins(2, 1, 0),
            ins(2, 1, TTL_MAX),
            Op::Adv { ms: 3000 },
            Op::Get { k: 2 },
            ins(1, 1, 500),
            Op::Adv { ms: 600 },
            Op::Get { k: 1 },
            Op::Ttl { k: 1 },
            Op::Adv { ms: 3000 },
            Op::Get { k: 2 },
            Op::Rem { k: 2 },
            Op::Get { k: 2 },
        ];
        jobs.push(job(single(&cfg, flavor, settled(&ops)), &[0], "c03-max-ttl"));
    }
    // get_ttl / lookups of a key whose index hash is shared with another key: the deadline reported
    // is the key's own, never the neighbour's (index = k % 2, conflict = k + 1: keys 2 and 4)
    {
        let ccfg = Cfg { keymode: KeyMode::Collide { m: 2 }, ..Cfg::default() };
        let ca = [ins(2, 1, 1000), ins(4, 1, 0), ins(4, 1, 1500), Op::Ttl { k: 2 }, Op::Ttl { k: 4 }, Op::Adv { ms: 700 }, Op::Adv { ms: 2000 }];
        for s in sequences(&ca, if quick { 4 } else { 5 }) {
            if !s.iter().any(|o| matches!(o, Op::Ins { .. })) || !s.iter().any(|o| matches!(o, Op::Ttl { .. })) {
                continue;
            }
            let mut ops = s.clone();
            ops.extend([Op::Ttl { k: 2 }, Op::Ttl { k: 4 }, Op::Get { k: 2 }, Op::Get { k: 4 }]);
            jobs.push(job(single(&ccfg, flavor, settled(&ops)), &[0], "c03-colliding"));
        }
    }
    Spec {
        id: "C03",
        jobs,
        oracle: o_c03,
        interesting: |_, t| has_expiry(t) || t.recs.iter().any(|r| matches!(r.res, Res::Ttl(Some(x)) if x != u128::MAX)),
        rule: "scripted time lines: TTL in {0.3,1,1.5,2.5 s,1 h} x clock phase {0,0.35,0.95 s} x cleanup interval {0.5,2 s} x neighbour key sharing the expiry second {absent,inserted,updated,removed} x optional re-insert (at 0.25..2 s, with TTL none/0.5 s/2 s, directly or after a remove of the key, and once more with a validator that refuses the re-insert: the first deadline stays); get + get_ttl + ValueRef::ttl probed every 250 ms and at deadline-1ns / deadline / deadline+1ns until deadline + 3 s, quiescence after every step, all select/scheduling choices at bound 0; exact comparison with reference deadlines; plus the tick-race family (two TTL residents, the clock jumps past their deadlines, the client re-inserts / removes without waiting for quiescence, bound 2): an entry re-inserted without TTL stays visible; plus sub-millisecond TTLs (1 ns, 0.5 ms, 999999 ns, 1000001 ns; fresh key and as the new deadline of a resident key without TTL) probed at deadline-1ns / deadline / later, settled histories of depth 4/5 over {I(2,1s), I(4), I(4,1.5s), T(2), T(4), A(0.7s), A(2s)} on two keys sharing an index hash (slot model), and a TTL of Duration::MAX (fresh, repeated, replacing no TTL, replaced by 0.5 s)".into(),
        assumptions: COMMON_ASSUMPTIONS.iter().map(|s| s.to_string()).collect(),
    }
}

// ------------------------------------------------------------------------------------------------

fn o_c05(p: &Program, t: &Trace) -> Vec<Finding> {
    let mut v = o_reclaim(p, t);
    v.extend(o_agree(p, t));
    if !is_settled(p) {
        // at every quiescent point: no entry is still physically resident later than its deadline
        // + one bucket width + one cleanup interval (+ the tick that is due at that very instant)
        let bound = 1_000_000_000u128 + p.cfg.cleanup_interval().as_nanos();
        for s in t.snaps.iter().filter(|s| s.quiescent) {
            for e in &s.entries {
                if e.d_ns > 0 && s.now_ns > e.created_ns + e.d_ns + bound {
                    v.push(("expired-not-reclaimed".to_string(), format!("{:?} (deadline +{} ms) is still physically resident at +{} ms, later than deadline + 1 s + cleanup interval", e.value, (e.created_ns + e.d_ns).saturating_sub(stretto_verif_rt::world::E0_NS + p.cfg.phase_ms as u128 * 1_000_000) / 1_000_000, s.now_ns.saturating_sub(stretto_verif_rt::world::E0_NS + p.cfg.phase_ms as u128 * 1_000_000) / 1_000_000)));
                    return v;
                }
            }
        }
    }
    if !is_settled(p) && t.evict_rounds.is_empty() {
        // cleanup racing the client: with ample capacity on_evict is the sweep, and the sweep only
        // takes entries whose own TTL has elapsed
        for e in &t.ledger {
            if e.kind == CbKind::Evict && e.exp_expired != Some(true) {
                v.push(("evicted-unexpired".to_string(), format!("value {:?} was handed to on_evict by the cleanup although its TTL had not elapsed (or it has none)", e.val)));
            }
        }
    }
    v
}

pub fn c05(tier: &str, flavor: Flavor) -> Spec {
    let quick = tier == "quick";
    let mut alpha = Vec::new();
    let ttls: &[u64] = if quick { &[500, 1500] } else { &[500, 1000, 1500, 2000] };
    for k in [1u64, 2] {
        for &ttl in ttls {
            alpha.push(ins(k, 1, ttl));
        }
        alpha.push(Op::Rem { k });
    }
    alpha.push(ins(1, 1, 0));
    alpha.push(Op::Adv { ms: 250 });
    alpha.push(Op::Adv { ms: 1000 });
    let depth = if quick { 4 } else { 5 };
    let seqs = sequences(&alpha, depth);
    let configs: Vec<(u64, u64)> = if quick {
        vec![(2000, 0), (500, 300), (2500, 800), (1000, 0)]
    } else {
        let mut v = Vec::new();
        for i in [500u64, 1000, 2000, 2500] {
            for ph in [0u64, 300, 800] {
                v.push((i, ph));
            }
        }
        v
    };
    let mut jobs = Vec::new();
    for (interval, phase) in &configs {
        let cfg = Cfg { cleanup_ms: *interval, phase_ms: *phase, ..Cfg::default() };
        for s in &seqs {
            if !s.iter().any(|o| matches!(o, Op::Ins { ttl_ms, .. } if *ttl_ms > 0)) {
                continue;
            }
            let mut ops = s.clone();
            // idle long enough for every deadline + 1 s + interval to pass, in steps that keep the
            // processor served (every advance is followed by a settle)
            for _ in 0..7 {
                ops.push(Op::Adv { ms: 1000 });
            }
            jobs.push(job(single(&cfg, flavor, settled(&ops)), &[0], "c05"));
        }
    }
    // a validator that refuses overwrites: a refused write must not move (or remove) the listing of
    // the resident entry in the expiry index either
    for validator in [ValidatorMode::Never, ValidatorMode::Newer] {
        let vcfg = Cfg { validator, cleanup_ms: 1000, ..Cfg::default() };
        for s in sequences(&alpha, depth.min(4)) {
            if !s.iter().any(|o| matches!(o, Op::Ins { ttl_ms, .. } if *ttl_ms > 0)) {
                continue;
            }
            let mut ops = s.clone();
            for _ in 0..5 {
                ops.push(Op::Adv { ms: 1000 });
            }
            jobs.push(job(single(&vcfg, flavor, settled(&ops)), &[0], "c05-validator"));
        }
    }
    // entries charged nothing or less than nothing (cost below zero; cost 0 priced by a Coster that
    // answers 0 or -3): the sweep releases whatever charge there is, the key can be used again
    for coster_base in [0i64, -3] {
        let ocfg = Cfg { coster_base, cleanup_ms: 1000, ..Cfg::default() };
        let oalpha = [ins(1, -5, 500), ins(1, 0, 500), ins(2, -1, 1500), ins(2, 1, 500), Op::Rem { k: 1 }, Op::Adv { ms: 1000 }];
        for s in sequences(&oalpha, 3) {
            if !s.iter().any(|o| matches!(o, Op::Ins { ttl_ms, .. } if *ttl_ms > 0)) {
                continue;
            }
            let mut ops = s.clone();
            for _ in 0..5 {
                ops.push(Op::Adv { ms: 1000 });
            }
            ops.extend([ins(1, 1, 0), ins(2, 1, 0), Op::Get { k: 1 }, Op::Get { k: 2 }]);
            jobs.push(job(single(&ocfg, flavor, settled(&ops)), &[0], "c05-odd-charges"));
        }
    }
    // dead on arrival: the TTL runs out between the insert call and the moment the processor applies
    // the buffered item (time passes before the processor is served, or the TTL is a nanosecond):
    // the entry is stored, charged and listed all the same, so the sweep collects it
    for cleanup_ms in [500u64, 1000, 2000] {
        for first in [vec![ins(1, 1, 300), Op::Adv { ms: 500 }], vec![ins(1, 1, 300), ins(2, 1, 1200), Op::Adv { ms: 1500 }], vec![ins_ns(1, 1, 1), Op::AdvNs { ns: 1 }], vec![ins_ns(1, 1, 1), ins_ns(2, 1, 999_999), Op::Adv { ms: 1 }], vec![ins(2, 1, 0), ins(2, 1, 300), ins(1, 1, 300), Op::Adv { ms: 400 }]] {
            let cfg = Cfg { cleanup_ms, ..Cfg::default() };
            let mut ops = first.clone();
            ops.push(Op::Settle);
            for _ in 0..5 {
                ops.push(Op::Adv { ms: 1000 });
                ops.push(Op::Settle);
            }
            ops.extend([ins(1, 1, 0), Op::Settle, Op::Get { k: 1 }, Op::Settle]);
            jobs.push(job(single(&cfg, flavor, ops), &[1], "c05-dead-on-arrival"));
        }
    }
    // one client gives a resident key a TTL (filed into the expiry index on the client's thread)
    // while another lets the clock pass the deadline of its bucket-mates: the sweep of that bucket
    // and the filing race; whatever the order, the key is reclaimed in the end
    for (ttl, jump) in [(300u64, 1500u64), (300, 2500), (900, 1500)] {
        for t0 in [vec![ins(1, 1, ttl)], vec![ins(1, 1, ttl), ins(3, 1, ttl)], vec![Op::Pres { k: 2, c: 1 }, ins(1, 1, ttl)]] {
            let mut p = conc(&Cfg::default(), flavor, &[ins(1, 1, 0), ins(2, 1, 300), ins(3, 1, 0)], vec![t0.clone(), vec![Op::Adv { ms: jump }]]);
            p.post = vec![Op::Settle, Op::Adv { ms: 1000 }, Op::Settle, Op::Adv { ms: 1000 }, Op::Settle, Op::Adv { ms: 1000 }, Op::Settle, Op::Get { k: 1 }];
            jobs.push(job(p, &[2], "c05-filing-vs-sweep"));
        }
    }
    // two clients overwrite the TTL of one resident key at the same time (each files the new
    // deadline in the expiry index on its own thread): whichever deadline the entry ends up
    // with, the sweep finds it
    for (a, b) in [(1000u64, 5000u64), (5000, 1000), (0, 5000), (1000, 2500)] {
        let mut p = conc(&Cfg::default(), flavor, &[ins(1, 1, 5000), ins(2, 1, 0)], vec![vec![ins(1, 1, a)], vec![ins(1, 1, b)]]);
        p.post = vec![Op::Settle];
        for _ in 0..8 {
            p.post.push(Op::Adv { ms: 1000 });
            p.post.push(Op::Settle);
        }
        jobs.push(job(p, &[2], "c05-two-writers"));
    }
    jobs.extend(tick_race_jobs(flavor, quick, "c05-tick-race"));
    // a lookup guard (on the expired entry itself or on a neighbour in the same shard) held while
    // the sweep for that entry is due: the sweep waits for the guard, the entry is reclaimed
    for held in [1u64, 257] {
        for iv in [500u64, 2000] {
            let cfg = Cfg { max_cost: 100, cleanup_ms: iv, ..Cfg::default() };
            let mut ops = vec![Op::GetHold { k: held, ms: 2500 }, Op::Settle];
            for _ in 0..4 {
                ops.push(Op::Adv { ms: 1000 });
                ops.push(Op::Settle);
            }
            let mut p = single(&cfg, flavor, ops);
            p.setup = vec![ins(1, 1, 1000), ins(257, 1, 0)];
            jobs.push(job(p, &[1], "c05-guard-held"));
        }
    }
    // two keys filed into one fresh expiry bucket at the same time: the processor applying a new
    // TTL insert while the client re-files a resident key (in place) with a TTL of the same second
    {
        let cfg = Cfg { max_cost: 100, ..Cfg::default() };
        for body in [
            vec![ins(1, 1, 1000), ins(2, 1, 1000)],
            vec![ins(1, 1, 1000), ins(2, 1, 1200), ins(3, 1, 1000)],
            vec![ins(1, 1, 1000), Op::Pres { k: 2, c: 1 }, ins(2, 1, 1000)],
            vec![ins(2, 1, 1000), ins(1, 1, 1000), ins(3, 1, 1000)],
        ] {
            let mut ops = body.clone();
            ops.push(Op::Settle);
            for _ in 0..4 {
                ops.push(Op::Adv { ms: 1000 });
                ops.push(Op::Settle);
            }
            let mut p = single(&cfg, flavor, ops);
            p.setup = vec![ins(2, 1, 0), ins(3, 1, 5000)];
            jobs.push(job(p, &[2], "c05-fresh-bucket-race"));
        }
    }
    Spec {
        id: "C05",
        jobs,
        oracle: o_c05,
        interesting: |_, t| has_expiry(t),
        rule: format!(
            "every history of depth {} over {} symbols (I(k,ttl) k in 1..2, R(k), I(1,no ttl), A(0.25s), A(1s)) containing a TTL insert, x {} (cleanup interval incl. the 2 s default, clock phase) settings, followed by 7 x 1 s of idle time; quiescence after every step (the processor is never starved), all choices at bound 0; oracle: physically reclaimed, un-charged and handed to on_evict exactly once with the charged cost by deadline + 1 s + interval; never evicted before the deadline; plus c05-two-writers (two clients overwrite the TTL of one resident key at the same time; bound 2), c05-filing-vs-sweep (one client gives a resident key a TTL while another lets the clock pass the deadline of its bucket-mates; bound 2), plus entries whose TTL runs out before the processor applies the buffered insert (dead on arrival: 0.3 s TTL with 0.4-1.5 s of lag, 1 ns / 999999 ns TTLs), plus the odd-charges family (costs -5 / -1 / 0 with a Coster answering 0 or -3, depth 3, both keys re-inserted afterwards) and the families named in DESIGN 11.5; non-trivial = an expiry was reclaimed",
            depth,
            alpha.len(),
            configs.len()
        ),
        assumptions: COMMON_ASSUMPTIONS.iter().map(|s| s.to_string()).collect(),
    }
}

// ------------------------------------------------------------------------------------------------

fn o_c09(p: &Program, t: &Trace) -> Vec<Finding> {
    let mut v = o_map(p, t);
    v.extend(o_veto_identity(p, t));
    // a veto must leave the TTL as it was: the old deadline still applies, also for the sweep
    v.extend(o_reclaim(p, t));
    v
}

pub fn c09(tier: &str, flavor: Flavor) -> Spec {
    let quick = tier == "quick";
    let mut alpha = Vec::new();
    for k in [1u64, 2] {
        alpha.push(ins(k, 1, 0));
        alpha.push(ins(k, 1, 2000));
        alpha.push(Op::Pres { k, c: 2 });
        alpha.push(Op::Rem { k });
        alpha.push(Op::Get { k });
        alpha.push(Op::Ttl { k });
    }
    alpha.push(Op::Adv { ms: 1000 });
    let depth = if quick { 4 } else { 5 };
    let seqs = sequences(&alpha, depth);
    let mut jobs = Vec::new();
    for validator in [ValidatorMode::Always, ValidatorMode::Never, ValidatorMode::Newer] {
        let cfg = Cfg { validator, ..Cfg::default() };
        for s in &seqs {
            if !s.iter().any(|o| matches!(o, Op::Pres { .. } | Op::Ins { .. })) {
                continue;
            }
            let mut ops = s.clone();
            ops.push(Op::Get { k: 1 });
            ops.push(Op::Get { k: 2 });
            // idle past every deadline + bucket + tick: a vetoed write must not have moved a deadline
            for _ in 0..4 {
                ops.push(Op::Adv { ms: 1000 });
            }
            ops.push(Op::Get { k: 1 });
            ops.push(Op::Get { k: 2 });
            jobs.push(job(single(&cfg, flavor, settled(&ops)), &[0], "c09"));
        }
    }
    // position relative to pending buffered work for the same key: no settle between the operations
    let mut alpha2 = Vec::new();
    for k in [1u64] {
        alpha2.push(ins(k, 1, 0));
        alpha2.push(Op::Pres { k, c: 2 });
        alpha2.push(Op::Rem { k });
        alpha2.push(Op::Settle);
    }
    for s in sequences(&alpha2, if quick { 4 } else { 5 }) {
        if !s.iter().any(|o| matches!(o, Op::Pres { .. })) {
            continue;
        }
        let mut ops = s.clone();
        ops.push(Op::Settle);
        ops.push(Op::Get { k: 1 });
        for validator in [ValidatorMode::Always, ValidatorMode::Never] {
            let cfg = Cfg { validator, ..Cfg::default() };
            jobs.push(job(single(&cfg, flavor, ops.clone()), &[1], "c09-unsettled"));
        }
    }
    // ... and relative to pending work that takes the key out before the queued item is handled:
    // capacity 1, so a buffered insert of the other key evicts the resident one
    let mut alpha3 = vec![ins(1, 1, 0), ins(2, 1, 0), Op::Pres { k: 1, c: 1 }, Op::Get { k: 1 }, Op::Settle];
    if !quick {
        alpha3.push(Op::Rem { k: 1 });
    }
    for s in sequences(&alpha3, if quick { 4 } else { 5 }) {
        if !s.iter().any(|o| matches!(o, Op::Pres { .. })) {
            continue;
        }
        let mut ops = s.clone();
        ops.push(Op::Settle);
        ops.push(Op::Get { k: 1 });
        ops.push(Op::Snap);
        for validator in [ValidatorMode::Never, ValidatorMode::Newer] {
            let cfg = Cfg { validator, max_cost: 1, ..Cfg::default() };
            jobs.push(job(single(&cfg, flavor, ops.clone()), &[1], "c09-unsettled-evicting"));
        }
    }
    // two clients writing one resident key under the "newer wins" validator: verdict and
    // replacement are one atomic step, a write the validator must refuse never replaces a newer one
    {
        let vcfg = Cfg { validator: ValidatorMode::Newer, ..Cfg::default() };
        let va = [ins(1, 1, 0), Op::Pres { k: 1, c: 1 }, ins(1, 1, 2000), Op::Get { k: 1 }];
        let vb = bodies(&va, if quick { 1 } else { 2 });
        for a in &vb {
            for b in &vb {
                if !a.iter().chain(b.iter()).any(|o| matches!(o, Op::Ins { .. } | Op::Pres { .. })) {
                    continue;
                }
                let mut p = conc(&vcfg, flavor, &[ins(1, 1, 0)], vec![a.clone(), b.clone()]);
                p.post = vec![Op::Settle, Op::Get { k: 1 }];
                jobs.push(job(p, &[2], "c09-validator-race"));
            }
        }
    }
    // conditional writes on a key whose TTL has run out while the sweep has not collected it yet
    for validator in [ValidatorMode::Never, ValidatorMode::Newer, ValidatorMode::Always] {
        jobs.extend(dead_entry_jobs(flavor, if quick { 2 } else { 3 }, validator, true, "c09-dead-entry"));
    }
    // insert_if_present of a key that is absent while another key with the same index hash is
    // resident - alive, or dead and not yet swept (index = k % 2, conflict = k + 1: keys 2 and 4)
    for validator in [ValidatorMode::Always, ValidatorMode::Never] {
        for cleanup_ms in [3_600_000u64, 1000] {
            let ccfg = Cfg { keymode: KeyMode::Collide { m: 2 }, cleanup_ms, validator, ..Cfg::default() };
            let ca = [Op::Pres { k: 4, c: 1 }, Op::Pres { k: 2, c: 1 }, Op::Get { k: 4 }, Op::Mut { k: 4 }, Op::Rem { k: 4 }, Op::Adv { ms: 500 }, ins(2, 1, 0)];
            for body in bodies(&ca, if quick { 3 } else { 4 }) {
                if !body.contains(&Op::Pres { k: 4, c: 1 }) {
                    continue;
                }
                let mut ops = body.clone();
                ops.extend([Op::Get { k: 4 }, Op::Get { k: 2 }, Op::Adv { ms: 1000 }, Op::Adv { ms: 1000 }, Op::Pres { k: 4, c: 1 }, Op::Get { k: 4 }]);
                let mut pr = single(&ccfg, flavor, settled(&ops));
                pr.setup = vec![ins(2, 1, 300)];
                jobs.push(job(pr, &[0], "c09-colliding-absent"));
            }
        }
    }
    Spec {
        id: "C09",
        jobs,
        oracle: o_c09_all,
        interesting: |_, t| t.validator_calls.iter().any(|c| !c.2) || t.recs.iter().any(|r| matches!(r.op, Op::Pres { .. }) && r.res == Res::Bool(true)),
        rule: format!(
            "validators {{always, never, newer-only}} x every history of depth {} over 13 symbols (I(k), I(k,2s), P(k), R(k), G(k), T(k) for k in 1..2, A(1s)), quiescence after every step, bound 0, exact reference map + snapshot identity across vetoes; plus every unsettled history over {{I(1),P(1),R(1),S}} (insert_if_present racing buffered work for the same key) and over {{I(1),I(2),P(1),G(1),S}} on a cache of capacity 1 (buffered work evicts the key before the queued item is handled) at preemption bound 1: a vetoed or refused write never becomes visible or resident; plus the dead-entry family (key 1 resident with a TTL that has run out, the sweep an hour or a second away; every body of <= 2/3 operations over G/M/T/I/I(ttl)/P/R on it, three validators, quiescence after every step), and insert_if_present of an absent key whose index hash is shared with a resident key that is alive or dead-and-unswept (a key no plain insert names is never served, never resident); non-trivial = a veto happened or insert_if_present updated",
            depth
        ),
        assumptions: COMMON_ASSUMPTIONS.iter().map(|s| s.to_string()).collect(),
    }
}

/// unsettled C09 histories: insert_if_present never *creates* an entry: if the key was never
/// inserted-and-accepted before the P (program order, single client), P must return false and no
/// value of a P that returned false may ever be visible / resident.
fn o_c09_unsettled(p: &Program, t: &Trace) -> Vec<Finding> {
    let mut out = Vec::new();
    let _ = p;
    let mut recs: Vec<&Rec> = t.recs.iter().collect();
    recs.sort_by_key(|r| r.call);
    let mut maybe_present = false;
    for r in &recs {
        match r.op {
            Op::Ins { .. } => {
                if r.res == Res::Bool(true) {
                    maybe_present = true
                }
            }
            Op::Pres { .. } => {
                if !maybe_present && r.res != Res::Bool(false) {
                    out.push(("present-created-entry".to_string(), format!("{} returned {:?} although the key was never inserted", r.op.short(), r.res)));
                }
                if r.res == Res::Bool(true) {
                    maybe_present = true;
                }
            }
            Op::Rem { .. } | Op::Clear => {
                // the remove takes the resident entry out immediately; buffered inserts may still land
            }
            _ => {}
        }
    }
    // an insert_if_present the validator vetoed never becomes an entry, whatever happens to the key
    // between the call and the processing of what the call queued: it would either have replaced
    // the value it was vetoed against or have created an entry.  (A vetoed plain insert is queued as
    // a new item by design and may be admitted once the old entry has been evicted: no replacement.)
    for r in &recs {
        if let (Op::Pres { .. }, Some(v)) = (r.op, r.wrote) {
            if t.validator_calls.iter().any(|(_, c, ok)| *c == v && !*ok) {
                let visible = t.recs.iter().any(|l| matches!(&l.res, Res::Val(Some((x, _))) if *x == v));
                let resident = t.snaps.iter().any(|s| s.entries.iter().any(|e| e.value == v));
                if visible || resident {
                    out.push(("veto-value-visible".to_string(), format!("{} was vetoed by the validator but its value {:?} is in the cache", r.op.short(), v)));
                }
            }
        }
    }
    for r in &recs {
        if let (Op::Pres { .. }, Some(v), Res::Bool(false)) = (r.op, r.wrote, &r.res) {
            let visible = t.recs.iter().any(|l| matches!(&l.res, Res::Val(Some((x, _))) if *x == v));
            let resident = t.snaps.iter().any(|s| s.entries.iter().any(|e| e.value == v));
            if visible || resident {
                out.push(("present-created-entry".to_string(), format!("{} returned false but its value {:?} is in the cache", r.op.short(), v)));
            }
        }
    }
    out.extend(o_lookup(p, t));
    out.extend(o_agree(p, t));
    out
}
/// insert_if_present only ever acts as an update of an entry that is there, and an update is
/// put to the UpdateValidator first: a value written by insert_if_present that a lookup returns
/// or a snapshot shows was accepted by the validator against the entry it replaced (whatever
/// the state of that entry, also when its TTL had run out and the sweep had not come yet).
fn o_present_validated(_p: &Program, t: &Trace) -> Vec<Finding> {
    let mut out = Vec::new();
    for w in t.recs.iter().filter(|r| matches!(r.op, Op::Pres { .. })) {
        let v = match w.wrote {
            Some(v) => v,
            None => continue,
        };
        if t.validator_calls.iter().any(|(_, c, ok)| *c == v && *ok) {
            continue;
        }
        let seen = t.recs.iter().find(|l| matches!(&l.res, Res::Val(Some((x, _))) if *x == v)).map(|l| l.op.short()).or_else(|| t.snaps.iter().find(|s| s.entries.iter().any(|e| e.value == v)).map(|_| "a snapshot".to_string()));
        if let Some(by) = seen {
            out.push(("present-value-without-validation".to_string(), format!("{} wrote {:?}, which {} shows, but the validator never accepted it as a replacement", w.op.short(), v, by)));
            return out;
        }
    }
    out
}

/// insert_if_present never creates an entry: a key that no plain insert of the program ever names
/// is never served and never resident, and every insert_if_present of it answers false - whatever
/// else lives in (or lingers in) the slot of its index hash.
fn o_present_never_creates(p: &Program, t: &Trace) -> Vec<Finding> {
    let mut out = Vec::new();
    let inserted: std::collections::HashSet<u64> = p.setup.iter().chain(p.threads.iter().flatten()).chain(p.post.iter()).filter_map(|o| if let Op::Ins { k, .. } = o { Some(*k) } else { None }).collect();
    for r in &t.recs {
        let k = match r.op.key() {
            Some(k) if !inserted.contains(&k) => k,
            _ => continue,
        };
        let bad = match (&r.op, &r.res) {
            (Op::Pres { .. }, Res::Bool(true)) => true,
            (_, Res::Val(Some(_))) | (_, Res::Ttl(Some(_))) => true,
            _ => false,
        };
        if bad {
            out.push(("present-created-entry".to_string(), format!("key {} is never inserted by a plain insert, yet {} returned {:?}", k, r.op.short(), r.res)));
            return out;
        }
    }
    for s in &t.snaps {
        if let Some(e) = s.entries.iter().find(|e| !inserted.contains(&e.value.key)) {
            out.push(("present-created-entry".to_string(), format!("key {} is never inserted by a plain insert, yet {:?} is resident", e.value.key, e.value)));
            return out;
        }
    }
    out
}

fn o_c09_all(p: &Program, t: &Trace) -> Vec<Finding> {
    let mut v = o_present_validated(p, t);
    v.extend(o_present_never_creates(p, t));
    if p.cfg.keymode != KeyMode::Transparent {
        // (the slot model knows no vetoes)
        if p.cfg.validator == ValidatorMode::Always {
            v.extend(o_collide(p, t));
        }
        return v;
    }
    if p.threads.len() > 1 {
        v.extend(o_newer_monotone(p, t));
        return v;
    }
    if is_settled(p) {
        v.extend(o_c09(p, t));
    } else {
        v.extend(o_c09_unsettled(p, t));
    }
    v
}
pub fn is_settled(p: &Program) -> bool {
    p.threads.len() == 1 && {
        let ops = &p.threads[0];
        (0..ops.len()).all(|i| matches!(ops[i], Op::Settle | Op::Snap) || matches!(ops.get(i + 1), Some(Op::Settle)))
    }
}

// ------------------------------------------------------------------------------------------------

fn o_c16(p: &Program, t: &Trace) -> Vec<Finding> {
    let mut v = o_cost(p, t);
    v.extend(o_policy(p, t));
    v
}

pub fn c16(tier: &str, flavor: Flavor) -> Spec {
    let quick = tier == "quick";
    let costs: &[i64] = &[0, 1, 5, 1000, -5];
    let mut alpha = Vec::new();
    for &c in costs {
        alpha.push(ins(1, c, 0));
        alpha.push(Op::Pres { k: 1, c });
    }
    alpha.push(ins(2, 1, 0));
    alpha.push(ins(2, 0, 0));
    let depth = 3;
    let seqs = sequences(&alpha, depth);
    let isz = stretto::verif::item_size::<Val>() as i64;
    let mut jobs = Vec::new();
    for (base, modu) in [(0i64, 0u32), (3, 0), (7, 5)] {
        for ignore in [true, false] {
            let maxes: Vec<i64> = if quick { vec![100_000, 1010 + 2 * isz] } else { vec![100_000, 1010 + 2 * isz, 8 + 2 * isz] };
            for max_cost in maxes {
                let cfg = Cfg { coster_base: base, coster_mod: modu, ignore_internal_cost: ignore, max_cost, ..Cfg::default() };
                for s in &seqs {
                    jobs.push(job(single(&cfg, flavor, settled(s)), &[0], "c16"));
                }
            }
        }
    }
    // evictions and rejections among entries of different costs: what on_evict / on_reject are told
    // is each entry's own charge, not the newcomer's
    let ev_alpha = [ins(1, 6, 0), ins(2, 3, 0), ins(3, 9, 0), ins(3, 4, 0), ins(1, 2, 0), ins(2, 0, 0), ins(3, 11, 0), ins(4, 500, 0), ins(2, 5, 1000), Op::Adv { ms: 2500 }];
    for (base, modu) in [(0i64, 0u32), (2, 3)] {
        for ignore in [true, false] {
            let max_cost = if ignore { 10 } else { 10 + 2 * isz };
            let cfg = Cfg { coster_base: base, coster_mod: modu, ignore_internal_cost: ignore, max_cost, ..Cfg::default() };
            for s in sequences(&ev_alpha, if quick { 3 } else { 4 }) {
                jobs.push(job(single(&cfg, flavor, settled(&s)), &[0], "c16-evicting"));
            }
        }
    }
    // entries with a TTL whose charge is zero or negative (cost -5, -1000 with the overhead
    // counted, cost 0 priced 0): what the sweep tells on_evict is that charge
    for ignore in [true, false] {
        let cfg = Cfg { coster_base: 0, coster_mod: 0, ignore_internal_cost: ignore, max_cost: 100_000, ..Cfg::default() };
        let oa = [ins(1, -5, 1000), ins(2, -1000, 1000), ins(3, 0, 1000), ins(1, 7, 0), ins(2, 7, 500), Op::Adv { ms: 2500 }];
        for s in sequences(&oa, if quick { 3 } else { 4 }) {
            if !s.contains(&Op::Adv { ms: 2500 }) {
                continue;
            }
            let mut ops = s.clone();
            ops.push(Op::Adv { ms: 2500 });
            jobs.push(job(single(&cfg, flavor, settled(&ops)), &[0], "c16-expiring-odd-charges"));
        }
    }
    Spec {
        id: "C16",
        jobs,
        oracle: o_c16,
        interesting: |_, t| t.snaps.iter().any(|s| !s.policy.key_costs.is_empty()),
        rule: format!(
            "coster {{const 0, const 3, 7 + seq%5}} x ignore_internal_cost {{true,false}} x max_cost {{ample, tight}} x every history of depth {} over {} symbols (I(1,c), P(1,c) for c in 0/1/5/1000, I(2,1), I(2,0)), quiescence after every write; plus histories over {{I(1,6), I(2,3), I(3,9), I(3,4), I(1,2), I(2,0), I(3,11), I(4,500) (oversize), I(2,5,1s), A(2.5s) (expiry)}} on a cache of capacity 10 (evictions and rejections among entries of different costs); plus TTL entries charged zero or less (costs -5, -1000, 0 with a Coster answering 0) reclaimed by the sweep; oracle: charge == (c != 0 ? c : coster(v)) + (ignore ? 0 : size_of StoreItem) after every step, callback cost == charged cost; non-trivial = something is charged",
            depth,
            alpha.len()
        ),
        assumptions: COMMON_ASSUMPTIONS.iter().map(|s| s.to_string()).collect(),
    }
}

// ------------------------------------------------------------------------------------------------
// helpers for concurrent programs

fn conc(cfg: &Cfg, flavor: Flavor, setup: &[Op], threads: Vec<Vec<Op>>) -> Program {
    Program { cfg: cfg.clone(), flavor, setup: setup.to_vec(), threads, post: vec![] }
}

/// all thread bodies with 1..=max_len operations from `alpha`
fn bodies(alpha: &[Op], max_len: usize) -> Vec<Vec<Op>> {
    let mut v = Vec::new();
    for l in 1..=max_len {
        v.extend(sequences(alpha, l));
    }
    v
}

/// Programs in which lookups have made the residents unequally popular (buffer_items 1, so every
/// lookup reaches the estimator) and a newcomer needs several victims: admissions that evict a
/// cold resident and are then REJECTED against a hot one, ties, exact fits.  Capacity 10.
fn popular_jobs(flavor: Flavor, metrics: bool, quick: bool, tag: &str) -> Vec<Job> {
    let cfg = Cfg { max_cost: 10, buffer_items: 1, metrics, ..Cfg::default() };
    let mut jobs = Vec::new();
    let warms: Vec<Vec<Op>> = vec![
        // COLD (1) and HOT (2), newcomer 3 in between
        vec![ins(1, 5, 0), ins(2, 5, 0), Op::Get { k: 2 }, Op::Get { k: 2 }, Op::Get { k: 2 }, Op::Get { k: 3 }, Op::Get { k: 3 }],
        // three residents with popularity 0 / 1 / 3
        vec![ins(1, 3, 0), ins(2, 3, 0), ins(4, 3, 0), Op::Get { k: 2 }, Op::Get { k: 4 }, Op::Get { k: 4 }, Op::Get { k: 4 }, Op::Get { k: 3 }],
    ];
    let alpha = [ins(3, 10, 0), ins(3, 6, 0), ins(5, 4, 0), ins(1, 5, 0), Op::Rem { k: 1 }, Op::Get { k: 1 }, Op::Get { k: 3 }, Op::Settle];
    for warm in &warms {
        for s in sequences(&alpha, if quick { 3 } else { 4 }) {
            if !s.iter().any(|o| matches!(o, Op::Ins { k: 3, .. } | Op::Ins { k: 5, .. })) {
                continue;
            }
            let mut ops = s.clone();
            ops.push(Op::Settle);
            let mut p = single(&cfg, flavor, ops);
            p.setup = warm.clone();
            jobs.push(job(p, &[0], tag));
        }
    }
    jobs
}

fn all_std() -> Vec<String> {
    COMMON_ASSUMPTIONS.iter().map(|s| s.to_string()).collect()
}

// ------------------------------------------------------------------------------------------------
// C01

fn o_c01(p: &Program, t: &Trace) -> Vec<Finding> {
    let mut v = o_policy(p, t);
    // "the total cost charged for RESIDENT entries": an entry that is resident without being
    // charged escapes the bound (and can never be evicted) ...
    v.extend(o_agree(p, t));
    // ... and so does one that is charged less than its cost
    v.extend(o_cost(p, t));
    v
}

pub fn c01(tier: &str, flavor: Flavor) -> Spec {
    let quick = tier == "quick";
    let isz = stretto::verif::item_size::<Val>() as i64;
    let mut jobs = Vec::new();
    // E-seq: unsettled histories (work stays buffered until the client settles / blocks)
    let mut alpha = Vec::new();
    for k in [1u64, 2, 3] {
        for c in [0i64, 2, 4, 7] {
            alpha.push(ins(k, c, 0));
        }
    }
    for k in [1u64, 2] {
        alpha.push(Op::Pres { k, c: 5 });
        alpha.push(Op::Rem { k });
    }
    alpha.push(Op::MaxCost { m: 3 });
    alpha.push(Op::MaxCost { m: 10 });
    alpha.push(Op::Clear);
    alpha.push(Op::Get { k: 1 });
    alpha.push(Op::Get { k: 3 });
    alpha.push(Op::Settle);
    let depth = if quick { 3 } else { 4 };
    for ignore in [true, false] {
        let max_cost = if ignore { 6 } else { 6 + 2 * isz };
        let cfg = Cfg { max_cost, ignore_internal_cost: ignore, coster_base: 3, ..Cfg::default() };
        let alpha: Vec<Op> = alpha
            .iter()
            .map(|o| match o {
                Op::MaxCost { m } if !ignore => Op::MaxCost { m: *m + isz },
                x => *x,
            })
            .collect();
        for s in sequences(&alpha, depth) {
            let bounds: &[usize] = if quick { &[0] } else { &[1] };
            jobs.push(job(single(&cfg, flavor, s), bounds, "c01-seq"));
        }
    }
    // multi-victim admissions: several small residents displaced by one larger newcomer (three and
    // more eviction rounds, refills of the sample)
    {
        let mut a = Vec::new();
        for k in [1u64, 2, 3, 4, 5] {
            a.push(ins(k, 1, 0));
        }
        a.push(ins(6, 3, 0));
        a.push(ins(7, 4, 0));
        a.push(ins(1, 3, 0));
        a.push(Op::Settle);
        for max_cost in [3i64, 4, 5] {
            let cfg = Cfg { max_cost, ..Cfg::default() };
            for s in sequences(&a, if quick { 5 } else { 6 }) {
                let mut ops = s.clone();
                ops.push(Op::Settle);
                jobs.push(job(single(&cfg, flavor, ops), &[0], "c01-multi-victim"));
            }
        }
    }
    // boundary costs (overflow hazards)
    {
        let big = [1i64, i64::MAX - 56, i64::MAX];
        let mut a = Vec::new();
        for k in [1u64, 2] {
            for c in big {
                a.push(ins(k, c, 0));
            }
        }
        a.push(Op::Settle);
        for max_cost in [10i64, i64::MAX] {
            for ignore in [true, false] {
                let cfg = Cfg { max_cost, ignore_internal_cost: ignore, ..Cfg::default() };
                for s in sequences(&a, 3) {
                    jobs.push(job(single(&cfg, flavor, s), &[0], "c01-boundary"));
                }
            }
        }
    }
    // E-conc: two clients
    let calpha = [ins(1, 4, 0), ins(2, 4, 0), ins(1, 6, 0), Op::MaxCost { m: 3 }, Op::Clear, Op::Rem { k: 1 }];
    let cfg = Cfg { max_cost: 6, ..Cfg::default() };
    let bs = bodies(&calpha, if quick { 1 } else { 2 });
    for a in &bs {
        for b in &bs {
            for setup in [vec![], vec![ins(3, 2, 0)], vec![ins(1, 2, 0), ins(3, 2, 0)]] {
                jobs.push(job(conc(&cfg, flavor, &setup, vec![a.clone(), b.clone()]), &[2], "c01-conc"));
            }
        }
    }
    if quick {
        // a few two-operation programs
        for (a, b) in [
            (vec![ins(1, 4, 0), ins(1, 6, 0)], vec![ins(2, 4, 0), Op::MaxCost { m: 3 }]),
            (vec![ins(1, 4, 0), Op::Clear], vec![ins(2, 4, 0), ins(3, 4, 0)]),
            (vec![ins(1, 6, 0), Op::Rem { k: 1 }], vec![ins(2, 4, 0), ins(1, 4, 0)]),
        ] {
            jobs.push(job(conc(&cfg, flavor, &[ins(3, 2, 0)], vec![a, b]), &[2], "c01-conc"));
        }
    }
    jobs.extend(popular_jobs(flavor, false, quick, "c01-popular"));
    // charges released / kept by the expiry sweep while the client refreshes the same keys
    jobs.extend(tick_race_jobs(flavor, quick, "c01-tick-race"));
    // newcomers charged exactly zero (cost 0, Coster 0, internal cost ignored) meeting a cache that
    // an update or a lowered max_cost left over budget: the admission re-establishes the bound
    {
        let zcfg = Cfg { coster_base: 0, coster_mod: 0, ignore_internal_cost: true, max_cost: 6, ..Cfg::default() };
        let za = [ins(1, 2, 0), ins(2, 2, 0), ins(1, 8, 0), Op::MaxCost { m: 3 }, ins(3, 0, 0), ins(4, 0, 0), ins(5, 1, 0)];
        for s in sequences(&za, if quick { 4 } else { 5 }) {
            if !s.iter().any(|o| matches!(o, Op::Ins { c: 0, .. })) {
                continue;
            }
            jobs.push(job(single(&zcfg, flavor, settled(&s)), &[0], "c01-zero-charge"));
        }
    }
    // cost 0 = "ask the Coster", internal overhead charged on top: new inserts and in-place
    // updates (insert, insert_if_present) on a cache in which exactly two such entries fit
    {
        let per = 40 + isz;
        let ccfg = Cfg { coster_base: 40, coster_mod: 0, ignore_internal_cost: false, max_cost: 2 * per + per / 2, ..Cfg::default() };
        let ca = [ins(1, 0, 0), ins(2, 0, 0), ins(3, 0, 0), Op::Pres { k: 1, c: 0 }, Op::Pres { k: 2, c: 0 }, ins(1, 5, 0)];
        for s in sequences(&ca, if quick { 4 } else { 5 }) {
            jobs.push(job(single(&ccfg, flavor, settled(&s)), &[0], "c01-coster"));
        }
    }
    // keys sharing an index hash (index = k % 2, conflict = k + 1: 2, 4 and 6 collide), buffered
    // work for one of them while another is inserted / removed, then the cache is filled: an entry
    // that is resident is charged (one that is not can never be evicted and escapes the bound)
    {
        let kcfg = Cfg { keymode: KeyMode::Collide { m: 2 }, max_cost: 4, ..Cfg::default() };
        let ka = [ins(2, 2, 0), ins(4, 2, 0), Op::Rem { k: 2 }, Op::Rem { k: 4 }, Op::Pres { k: 4, c: 3 }, ins(3, 2, 0), Op::Settle];
        for s in sequences(&ka, if quick { 4 } else { 5 }) {
            if !s.iter().any(|o| matches!(o, Op::Rem { .. })) || !s.iter().any(|o| matches!(o, Op::Ins { .. })) {
                continue;
            }
            let mut ops = s.clone();
            ops.extend([Op::Settle, ins(5, 1, 0), ins(7, 1, 0), ins(9, 2, 0), Op::Settle]);
            jobs.push(job(single(&kcfg, flavor, ops), &[1], "c01-colliding"));
        }
    }
    Spec {
        id: "C01",
        jobs,
        oracle: o_c01,
        interesting: |_, t| !t.evict_rounds.is_empty() || t.ledger.iter().any(|e| e.kind == CbKind::Reject),
        rule: format!(
            "policy state observed after EVERY policy operation (under its lock). Families beyond the ones spelled out here (popular, tick-race, zero-charge, coster, colliding keys with buffered work = c01-colliding) are described in DESIGN 11.5. E-seq: every unsettled history of depth {} over 24 symbols (I(k,c) k in 1..3 c in 0/2/4/7, P(k,5), R(k), U(3), U(10), X, G, S), both ignore_internal_cost settings, max_cost 6; boundary costs 1 / i64::MAX-56 / i64::MAX; E-conc: two clients x up to {} operations from {{I(1,4), I(2,4), I(1,6), U(3), X, R(1)}} x 3 pre-states at preemption bound 2; non-trivial = an eviction round or a rejection happened",
            depth,
            if quick { 1 } else { 2 }
        ),
        assumptions: all_std(),
    }
}

// ------------------------------------------------------------------------------------------------
// C06

fn o_c06(p: &Program, t: &Trace) -> Vec<Finding> {
    o_agree(p, t)
}

pub fn c06(tier: &str, flavor: Flavor) -> Spec {
    let quick = tier == "quick";
    let mut jobs = Vec::new();
    let cfg = Cfg { max_cost: 2, ..Cfg::default() };
    let alpha = [ins(1, 1, 0), ins(2, 1, 0), ins(3, 1, 0), Op::Rem { k: 1 }, Op::Clear];
    let pre: Vec<Vec<Op>> = vec![vec![], vec![ins(1, 1, 0)], vec![ins(1, 1, 0), ins(2, 1, 0)]];
    let bs1 = bodies(&alpha, 1);
    let bs2 = bodies(&alpha, 2);
    for setup in &pre {
        for a in if quick { &bs1 } else { &bs2 } {
            for b in if quick { &bs1 } else { &bs2 } {
                jobs.push(job(conc(&cfg, flavor, setup, vec![a.clone(), b.clone()]), &[2], "c06-conc"));
            }
        }
    }
    // named races
    let named: Vec<(Vec<Op>, Vec<Vec<Op>>)> = vec![
        (vec![], vec![vec![ins(1, 1, 0), ins(2, 1, 0)], vec![Op::Clear]]),
        (vec![ins(1, 1, 0), ins(2, 1, 0)], vec![vec![ins(3, 1, 0)], vec![Op::Rem { k: 1 }, Op::Rem { k: 2 }]]),
        (vec![ins(1, 1, 0), ins(2, 1, 0)], vec![vec![ins(3, 1, 0), ins(1, 1, 0)], vec![ins(2, 1, 0)]]),
        (vec![ins(1, 1, 1000)], vec![vec![Op::Adv { ms: 2000 }, ins(1, 1, 0)], vec![ins(2, 1, 0)]]),
        (vec![ins(1, 1, 1000), ins(2, 1, 1000)], vec![vec![Op::Adv { ms: 2000 }], vec![ins(1, 1, 0), Op::Rem { k: 2 }]]),
        (vec![ins(1, 1, 0)], vec![vec![Op::Clear, ins(1, 1, 0)], vec![ins(1, 1, 0), Op::Rem { k: 1 }]]),
    ];
    for (setup, threads) in named {
        jobs.push(job(conc(&cfg, flavor, &setup, threads), if quick { &[2] } else { &[3] }, "c06-named"));
    }
    // unsettled single-client histories (operation-granularity interleavings with buffered work)
    // (I(1,1000): an update whose new cost exceeds max_cost leaves the entry resident and charged)
    let salpha = [ins(1, 1, 0), ins(2, 1, 0), ins(3, 1, 0), ins(1, 1, 1000), ins(1, 1000, 0), Op::Rem { k: 1 }, Op::Rem { k: 3 }, Op::Clear, Op::Adv { ms: 1500 }, Op::Settle];
    for s in sequences(&salpha, if quick { 4 } else { 5 }) {
        jobs.push(job(single(&cfg, flavor, s), &[1], "c06-seq"));
    }
    jobs.extend(popular_jobs(flavor, false, quick, "c06-popular"));
    // tiny insert buffers: inserts, updates and removes meeting a full buffer (an operation that
    // reports an error takes the history out of the statement's scope)
    for buf in [1usize, 2] {
        let bcfg = Cfg { max_cost: 100, buffer_size: buf, ..Cfg::default() };
        let ba = [ins(1, 1, 0), ins(2, 1, 0), ins(3, 1, 0), Op::Rem { k: 1 }, Op::Rem { k: 2 }, Op::Settle];
        for s in sequences(&ba, if quick { 4 } else { 5 }) {
            let mut ops = s.clone();
            ops.push(Op::Settle);
            let mut p = single(&bcfg, flavor, ops);
            p.setup = vec![ins(1, 1, 0)];
            jobs.push(job(p, &[0], "c06-small-buffer"));
        }
    }
    // a client keeps a lookup / get_mut guard alive (across a yield) on the shard of a resident
    // while the processor admits a newcomer that needs that resident as its victim, removes or
    // re-inserts it: the processor waits for the shard, nobody is left resident and un-charged
    for guard in [vec![Op::GetYield { k: 1 }], vec![Op::GetYield { k: 2 }], vec![Op::GetYield { k: 1 }, Op::GetYield { k: 2 }], vec![Op::GetYield { k: 257 }]] {
        for other in [vec![ins(3, 1, 0)], vec![ins(3, 2, 0)], vec![ins(3, 1, 0), ins(4, 1, 0)], vec![Op::Rem { k: 1 }, ins(3, 1, 0)], vec![ins(1, 2, 0), ins(3, 1, 0)]] {
            jobs.push(job(conc(&cfg, flavor, &[ins(1, 1, 0), ins(2, 1, 0)], vec![other.clone(), guard.clone()]), &[2], "c06-guard-held"));
        }
    }
    Spec {
        id: "C06",
        jobs,
        oracle: o_c06,
        interesting: |_, t| !t.evict_rounds.is_empty() || t.ledger.iter().any(|e| e.kind != CbKind::Exit),
        rule: format!(
            "capacity 2, cost-1 keys. Plus c06-guard-held (a client keeps a lookup guard alive across a yield on the shard of the resident the processor needs as victim / removes / updates; bound 2), c06-popular, c06-small-buffer (DESIGN 11.5). E-conc: 3 pre-states x two clients x all bodies of <= {} operations from {{I(1), I(2), I(3), R(1), X}} at preemption bound 2, plus 6 named races (clear vs in-flight insert, remove vs eviction, update vs sweep) at bound {}; E-seq: every unsettled history of depth {} over 9 symbols at bound 1; oracle at every quiescent point: resident set == charged set, len() == their number (skipped if any call returned an error); non-trivial = eviction / rejection / expiry happened",
            if quick { 1 } else { 2 },
            if quick { 2 } else { 3 },
            if quick { 4 } else { 5 }
        ),
        assumptions: all_std(),
    }
}

// ------------------------------------------------------------------------------------------------
// C08

fn o_c08(p: &Program, t: &Trace) -> Vec<Finding> {
    o_ledger(p, t)
}

pub fn c08(tier: &str, flavor: Flavor) -> Spec {
    let quick = tier == "quick";
    let mut jobs = Vec::new();
    let cfg = Cfg { max_cost: 2, ..Cfg::default() };
    let mut alpha = Vec::new();
    for k in [1u64, 2, 3] {
        alpha.push(ins(k, 1, 0));
    }
    alpha.push(ins(1, 1, 1000));
    alpha.push(ins(2, 1, 1000));
    alpha.push(Op::Pres { k: 1, c: 1 });
    alpha.push(Op::Rem { k: 1 });
    alpha.push(Op::Rem { k: 2 });
    alpha.push(Op::Adv { ms: 1500 });
    alpha.push(Op::Settle);
    alpha.push(Op::Get { k: 1 });
    if !quick {
        alpha.push(Op::Clear);
    }
    for s in sequences(&alpha, if quick { 4 } else { 5 }) {
        jobs.push(job(single(&cfg, flavor, s), &[1], "c08-seq"));
    }
    // two keys sharing an index hash: a value refused because the slot belongs to the other key is
    // handed to on_reject, a remove of the non-resident key takes nothing away from the owner
    {
        let ccfg = Cfg { keymode: KeyMode::Collide { m: 2 }, max_cost: 100, ..Cfg::default() };
        let ca = [ins(2, 1, 0), ins(4, 1, 0), Op::Rem { k: 2 }, Op::Rem { k: 4 }, Op::Settle];
        for s in sequences(&ca, if quick { 4 } else { 5 }) {
            if !s.iter().any(|o| matches!(o, Op::Ins { .. })) {
                continue;
            }
            let mut ops = s.clone();
            ops.push(Op::Settle);
            jobs.push(job(single(&ccfg, flavor, ops), &[1], "c08-colliding"));
        }
    }
    // clear() with inserts still buffered: the buffered ones are handed back, only residents are
    // dropped silently
    {
        let xa = [ins(1, 1, 0), ins(2, 1, 0), ins(3, 1, 0), Op::Clear, Op::Settle];
        for s in sequences(&xa, 4) {
            if !s.contains(&Op::Clear) {
                continue;
            }
            let mut ops = s.clone();
            ops.push(Op::Settle);
            jobs.push(job(single(&cfg, flavor, ops), &[1], "c08-clear"));
        }
    }
    let calpha = [ins(1, 1, 0), ins(3, 1, 0), Op::Rem { k: 1 }, Op::Pres { k: 2, c: 1 }, Op::Get { k: 1 }];
    let pre: Vec<Vec<Op>> = vec![vec![ins(1, 1, 0), ins(2, 1, 0)], vec![ins(1, 1, 1000)], vec![]];
    let bs = bodies(&calpha, if quick { 1 } else { 2 });
    for setup in &pre {
        for a in &bs {
            for b in &bs {
                jobs.push(job(conc(&cfg, flavor, setup, vec![a.clone(), b.clone()]), &[2], "c08-conc"));
            }
        }
    }
    // popularity: lookups feed the estimator (buffer_items 1), so cold newcomers lose the admission
    // contest and must be handed to on_reject
    {
        let pcfg = Cfg { max_cost: 2, buffer_items: 1, ..Cfg::default() };
        let warm = vec![ins(1, 1, 0), ins(2, 1, 0), Op::Get { k: 1 }, Op::Get { k: 2 }, Op::Get { k: 1 }, Op::Get { k: 2 }];
        let pa = [ins(3, 1, 0), ins(4, 2, 0), ins(1, 1, 0), Op::Get { k: 3 }, Op::Rem { k: 2 }, Op::Settle];
        for s in sequences(&pa, if quick { 4 } else { 5 }) {
            let mut p = single(&pcfg, flavor, s);
            p.setup = warm.clone();
            jobs.push(job(p, &[0], "c08-popular"));
        }
        for a in bodies(&[ins(3, 1, 0), ins(4, 1, 0), Op::Get { k: 3 }], 2) {
            for b in bodies(&[ins(3, 1, 0), ins(5, 1, 0), Op::Rem { k: 1 }], 1) {
                jobs.push(job(conc(&pcfg, flavor, &warm, vec![a.clone(), b.clone()]), &[2], "c08-popular-conc"));
            }
        }
    }
    for (setup, threads) in [
        (vec![ins(1, 1, 0), ins(2, 1, 0)], vec![vec![ins(1, 1, 0)], vec![ins(3, 1, 0)]]),
        (vec![ins(1, 1, 0), ins(2, 1, 0)], vec![vec![ins(1, 1, 0), ins(1, 1, 0)], vec![Op::Rem { k: 1 }]]),
        (vec![ins(1, 1, 1000)], vec![vec![Op::Adv { ms: 2000 }, ins(1, 1, 0)], vec![Op::Get { k: 1 }]]),
        (vec![], vec![vec![ins(1, 1, 0), Op::Rem { k: 1 }], vec![ins(1, 1, 0), Op::Get { k: 1 }]]),
    ] {
        jobs.push(job(conc(&cfg, flavor, &setup, threads), if quick { &[2] } else { &[3] }, "c08-named"));
    }
    jobs.extend(popular_jobs(flavor, false, quick, "c08-popular-multi"));
    // tiny insert buffers: updates of resident keys / removes whose item cannot be queued
    for buf in [1usize, 2] {
        let bcfg = Cfg { max_cost: 100, buffer_size: buf, ..Cfg::default() };
        let ba = [ins(1, 1, 0), ins(2, 1, 0), ins(3, 1, 0), Op::Pres { k: 1, c: 1 }, Op::Rem { k: 1 }, Op::Get { k: 1 }, Op::Settle];
        for s in sequences(&ba, if quick { 4 } else { 5 }) {
            let mut ops = s.clone();
            ops.push(Op::Settle);
            let mut p = single(&bcfg, flavor, ops);
            p.setup = vec![ins(1, 1, 0)];
            jobs.push(job(p, &[0], "c08-small-buffer"));
        }
    }
    jobs.extend(tick_race_jobs(flavor, quick, "c08-tick-race"));
    jobs.extend(dead_entry_jobs(flavor, if quick { 2 } else { 3 }, ValidatorMode::Always, false, "c08-dead-entry"));
    jobs.extend(dead_entry_jobs(flavor, 2, ValidatorMode::Never, false, "c08-dead-entry"));
    Spec {
        id: "C08",
        jobs,
        oracle: o_c08,
        interesting: |_, t| t.ledger.iter().any(|e| e.kind != CbKind::Exit),
        rule: format!(
            "value-conservation ledger: every value carries a unique id; capacity 2. E-seq: every unsettled history of depth {} over {} symbols (I(k), I(k,1s), P(1), R(k), A(1.5s), S, G(1){}) at preemption bound 1; E-conc: 3 pre-states x two clients x bodies of <= {} operations from {{I(1), I(3), R(1), P(2), G(1)}} at bound 2, 4 named races at bound {}; oracle: at most one callback per value, resident + callbacks == 1 at the final quiescent point (== 0 allowed only after clear/close), no lookup returns a value after its callback; non-trivial = an evict / reject callback fired",
            if quick { 4 } else { 5 },
            alpha.len(),
            if quick { "" } else { ", X" },
            if quick { 1 } else { 2 },
            if quick { 2 } else { 3 }
        ),
        assumptions: all_std(),
    }
}

// ------------------------------------------------------------------------------------------------
// C02

/// Under the "newer wins" validator (a write is accepted iff its sequence number is higher than
/// the resident one's) the value of a key that is never removed can only move forward: every
/// lookup returns a value at least as new as any value an earlier lookup returned, and after
/// quiescence the key holds the newest value ever written to it.
fn o_newer_monotone(p: &Program, t: &Trace) -> Vec<Finding> {
    let mut out = Vec::new();
    if p.cfg.validator != ValidatorMode::Newer || p.threads.iter().chain(std::iter::once(&p.post)).flatten().any(|o| matches!(o, Op::Rem { .. } | Op::Clear | Op::Close | Op::Mut { .. } | Op::Adv { .. } | Op::AdvNs { .. })) {
        return out;
    }
    let lookups: Vec<(&Rec, Val)> = t.recs.iter().filter_map(|r| match (&r.op, &r.res) {
        (Op::Get { .. }, Res::Val(Some((v, _)))) => Some((r, *v)),
        _ => None,
    }).collect();
    for (a, va) in &lookups {
        for (b, vb) in &lookups {
            if a.ret < b.call && a.op.key() == b.op.key() && Program::rank(vb.seq) < Program::rank(va.seq) {
                out.push(("validator-order-broken".to_string(), format!("{} returned {:?} after an earlier lookup had already returned the newer {:?}: a write the validator must refuse replaced it", b.op.short(), vb, va)));
                return out;
            }
        }
    }
    // the final lookup (post section, after quiescence) against every completed write
    if let Some((l, v)) = lookups.iter().filter(|(r, _)| r.th == 0 && p.post.len() > 0).max_by_key(|(r, _)| r.call) {
        let newest = t.recs.iter().filter(|r| r.ret < l.call && r.op.key() == l.op.key() && matches!(r.op, Op::Ins { .. } | Op::Pres { .. })).filter_map(|r| r.wrote).map(|w| Program::rank(w.seq)).max();
        if let Some(n) = newest {
            if Program::rank(v.seq) < n && t.recs.iter().all(|r| r.ret < l.call || std::ptr::eq(r, *l)) {
                out.push(("validator-order-broken".to_string(), format!("after quiescence {} returned {:?} although a write with the newer sequence number {} had been accepted for the resident key", l.op.short(), v, n)));
            }
        }
    }
    out
}

fn o_c02(p: &Program, t: &Trace) -> Vec<Finding> {
    let mut v = o_lookup(p, t);
    v.extend(o_newer_monotone(p, t));
    if is_settled(p) && p.cfg.max_cost >= 100 && p.cfg.keymode == KeyMode::Transparent {
        v.extend(o_map(p, t));
    }
    v
}

pub fn c02(tier: &str, flavor: Flavor) -> Spec {
    let quick = tier == "quick";
    let mut jobs = Vec::new();
    // E-seq on keys sharing a shard (1 and 257), with and without eviction pressure
    let mut alpha = Vec::new();
    for k in [1u64, 257] {
        alpha.push(ins(k, 1, 0));
        alpha.push(ins(k, 1, 1000));
        alpha.push(Op::Mut { k });
        alpha.push(Op::Rem { k });
        alpha.push(Op::Get { k });
    }
    alpha.push(Op::Clear);
    alpha.push(Op::Adv { ms: 1000 });
    alpha.push(Op::Settle);
    for max_cost in [100i64, 1] {
        let cfg = Cfg { max_cost, ..Cfg::default() };
        for s in sequences(&alpha, if quick { 4 } else { 5 }) {
            if !s.iter().any(|o| matches!(o, Op::Get { .. } | Op::Mut { .. })) {
                continue;
            }
            jobs.push(job(single(&cfg, flavor, s), if quick { &[0] } else { &[1] }, "c02-seq"));
        }
    }
    // tiny insert buffers: a remove whose Delete cannot be queued must not pretend it went through
    {
        let a3 = [ins(1, 1, 0), ins(257, 1, 0), Op::Rem { k: 1 }, Op::Get { k: 1 }, Op::Settle];
        for buf in [1usize, 2] {
            let cfg = Cfg { buffer_size: buf, ..Cfg::default() };
            for s in sequences(&a3, if quick { 5 } else { 6 }) {
                if !s.iter().any(|o| matches!(o, Op::Rem { .. })) {
                    continue;
                }
                let mut ops = s.clone();
                ops.push(Op::Settle);
                ops.push(Op::Get { k: 1 });
                jobs.push(job(single(&cfg, flavor, ops), &[0], "c02-small-buffer"));
            }
        }
    }
    // one key, several buffered inserts, the processor catching up in between (preemption bound 2):
    // a value written in place must not be rolled back by an older buffered insert
    {
        let a4 = [ins(1, 1, 0), Op::Get { k: 1 }, Op::Mut { k: 1 }, Op::Settle];
        let cfg = Cfg::default();
        for s in sequences(&a4, if quick { 4 } else { 5 }) {
            if s.iter().filter(|o| matches!(o, Op::Ins { .. })).count() < 2 {
                continue;
            }
            let mut ops = s.clone();
            ops.push(Op::Settle);
            ops.push(Op::Get { k: 1 });
            jobs.push(job(single(&cfg, flavor, ops), &[2], "c02-rollback"));
        }
        // ... and a remove is not undone by one: several inserts of an absent key are buffered as
        // new items, the processor applies some of them, the client removes the key, the rest follows
        let a5 = [ins(1, 1, 0), Op::Rem { k: 1 }, Op::Get { k: 1 }, Op::Pres { k: 1, c: 1 }];
        for s in sequences(&a5, if quick { 4 } else { 5 }) {
            if s.iter().filter(|o| matches!(o, Op::Ins { .. })).count() < 2 || !s.contains(&Op::Rem { k: 1 }) {
                continue;
            }
            let mut ops = s.clone();
            ops.extend([Op::Wait, Op::Get { k: 1 }, Op::Settle, Op::Get { k: 1 }]);
            jobs.push(job(single(&cfg, flavor, ops), &[2], "c02-remove-not-undone"));
        }
    }
    // fully settled histories: exactly the last value written
    {
        let cfg = Cfg::default();
        let a2: Vec<Op> = alpha.iter().copied().filter(|o| *o != Op::Settle).collect();
        for s in sequences(&a2, if quick { 3 } else { 4 }) {
            let mut ops = s.clone();
            ops.push(Op::Get { k: 1 });
            ops.push(Op::Get { k: 257 });
            jobs.push(job(single(&cfg, flavor, settled(&ops)), &[0], "c02-settled"));
        }
    }
    // E-conc: two writers + a reader
    let cfg = Cfg::default();
    let walpha = [ins(1, 1, 0), ins(257, 1, 0), Op::Mut { k: 1 }, Op::Rem { k: 1 }, Op::Clear];
    let ws = bodies(&walpha, if quick { 1 } else { 2 });
    let reader = vec![Op::Get { k: 1 }, Op::Get { k: 1 }];
    for setup in [vec![], vec![ins(1, 1, 0)]] {
        for a in &ws {
            for b in &ws {
                jobs.push(job(conc(&cfg, flavor, &setup, vec![a.clone(), b.clone(), reader.clone()]), if quick { &[1] } else { &[2] }, "c02-conc"));
            }
        }
    }
    for (setup, threads) in [
        (vec![ins(1, 1, 0)], vec![vec![ins(1, 1, 0), ins(1, 1, 0)], vec![ins(257, 1, 0)], vec![Op::Get { k: 1 }, Op::Get { k: 1 }]]),
        (vec![ins(1, 1, 0)], vec![vec![ins(1, 1, 0), Op::Mut { k: 1 }], vec![Op::Get { k: 1 }, Op::Get { k: 1 }, Op::Get { k: 1 }]]),
        (vec![], vec![vec![ins(1, 1, 0), Op::Rem { k: 1 }], vec![Op::Get { k: 1 }, Op::Get { k: 1 }]]),
        (vec![], vec![vec![ins(1, 1, 0)], vec![Op::Clear], vec![Op::Get { k: 1 }]]),
    ] {
        jobs.push(job(conc(&cfg, flavor, &setup, threads), &[2], "c02-named"));
    }
    // two clients clearing at the same time, each looking the key up right after ITS clear returned
    for a in [vec![Op::Clear, Op::Get { k: 1 }], vec![Op::Clear, Op::Get { k: 1 }, Op::Get { k: 257 }]] {
        for b in [vec![Op::Clear, Op::Get { k: 1 }], vec![Op::Clear], vec![ins(257, 1, 0), Op::Clear, Op::Get { k: 257 }]] {
            jobs.push(job(conc(&cfg, flavor, &[ins(1, 1, 0), ins(257, 1, 0)], vec![a.clone(), b.clone()]), &[2], "c02-two-clears"));
        }
    }
    // two writers of one resident key under a "newer wins" validator: the validator's verdict and
    // the replacement are one atomic step, so the value of an always-resident key never goes back
    {
        let vcfg = Cfg { validator: ValidatorMode::Newer, ..Cfg::default() };
        let va = [ins(1, 1, 0), Op::Pres { k: 1, c: 1 }, Op::Get { k: 1 }];
        let vb = bodies(&va, if quick { 1 } else { 2 });
        for a in &vb {
            for b in &vb {
                if !a.iter().chain(b.iter()).any(|o| matches!(o, Op::Ins { .. } | Op::Pres { .. })) {
                    continue;
                }
                let mut p = conc(&vcfg, flavor, &[ins(1, 1, 0)], vec![a.clone(), b.clone()]);
                p.post = vec![Op::Settle, Op::Get { k: 1 }];
                jobs.push(job(p, &[2], "c02-validator-race"));
            }
        }
    }
    // two keys sharing an index hash ("never a value of another key"), with TTLs and idle time:
    // an expired entry that has not been swept yet still keeps the other key out of its slot
    {
        let ccfg = Cfg { keymode: KeyMode::Collide { m: 2 }, ..Cfg::default() };
        for ops in expiring_collide_histories(quick) {
            jobs.push(job(single(&ccfg, flavor, settled(&ops)), &[0], "c02-colliding-expiring"));
        }
    }
    // clear() while the residents are charged nothing in total: afterwards nothing is served
    jobs.extend(uncharged_clear_jobs(flavor, quick, false, "c02-uncharged-clear"));
    Spec {
        id: "C02",
        jobs,
        oracle: o_c02,
        interesting: |_, t| t.recs.iter().any(|r| matches!(r.res, Res::Val(Some(_)))),
        rule: format!(
            "keys 1 and 257 (same shard). E-seq: every history of depth {} over 13 symbols (I(k), I(k,1s), M(k), R(k), G(k), X, A(1s), S) containing a lookup, at max_cost 100 and 1 (forced evictions); every fully settled history of depth {} with exact-map comparison; E-conc: two writer threads x bodies of <= {} operations from {{I(1), I(257), M(1), R(1), X}} + a reader doing two lookups, 2 pre-states, preemption bound {}; 4 named programs at bound 2; settled histories on two keys forced onto one index hash with TTLs and idle time (expired, unswept owner); two writers of one resident key under a 'newer wins' validator at bound 2 (the value never moves back); several buffered inserts of an absent key with the processor applying some of them, then a remove, wait() and lookups at bound 2 (a remove is not undone by an older buffered insert); clear() on residents charged nothing in total (cost 0 / +3 and -3, internal cost ignored), settled and unsettled; oracle on the recorded call/return history (value provenance, staleness after remove/clear + quiescence, no roll-back of in-place writes); non-trivial = a lookup returned a value",
            if quick { 4 } else { 5 },
            if quick { 3 } else { 4 },
            if quick { 1 } else { 2 },
            if quick { 1 } else { 2 }
        ),
        assumptions: all_std(),
    }
}

// ------------------------------------------------------------------------------------------------
// C10

fn o_c10(p: &Program, t: &Trace) -> Vec<Finding> {
    o_barrier(p, t)
}

pub fn c10(tier: &str, flavor: Flavor) -> Spec {
    let quick = tier == "quick";
    let mut jobs = Vec::new();
    // (a wait() inside the history: a failed or earlier barrier must not weaken the next one)
    let halpha = [ins(1, 1, 0), ins(2, 1, 0), Op::Rem { k: 1 }, Op::Rem { k: 2 }, Op::Pres { k: 1, c: 1 }, Op::Wait];
    let hist = bodies(&halpha, 2);
    let others: Vec<Vec<Vec<Op>>> = vec![
        vec![],
        vec![vec![Op::Wait]],
        vec![vec![Op::Clear]],
        vec![vec![Op::Close]],
        vec![vec![Op::Clear, Op::Close]],
        vec![vec![Op::Close], vec![Op::Wait]],
        vec![vec![Op::Wait], vec![Op::Wait]],
    ];
    for buf in [1usize, 2, 8] {
        let cfg = Cfg { buffer_size: buf, ..Cfg::default() };
        for h in &hist {
            for o in &others {
                if quick && buf != 8 && o.len() > 1 {
                    continue;
                }
                let mut a = h.clone();
                a.push(Op::Wait);
                a.push(Op::Get { k: 1 });
                a.push(Op::Get { k: 2 });
                a.push(Op::Snap);
                let mut threads = vec![a];
                threads.extend(o.iter().cloned());
                let heavy = o.len() > 1 || o.iter().any(|t| t.len() > 1);
                let b: &[usize] = if o.is_empty() {
                    &[2]
                } else if heavy {
                    if quick { &[0] } else { &[1] }
                } else if quick {
                    &[1]
                } else {
                    &[2]
                };
                if quick && buf == 2 {
                    continue;
                }
                // histories with an inner wait() are combined with no other client / one more waiter only
                if h.contains(&Op::Wait) && !(o.is_empty() || (o.len() == 1 && o[0] == vec![Op::Wait])) {
                    continue;
                }
                let dev: &[usize] = if heavy { if quick { &[1] } else { &[4] } } else if quick { &[] } else { &[4] };
                jobs.push(job_dev(conc(&cfg, flavor, &[], threads), b, dev, "c10"));
            }
        }
    }
    // three writes to one key before the barrier (a second insert of a key whose first insert is
    // still buffered, then its removal), also under a validator that refuses the overwrite (the
    // refused value travels the buffer as a new item): after Ok the removed key is gone
    for validator in [ValidatorMode::Always, ValidatorMode::Never] {
        let vcfg = Cfg { validator, ..Cfg::default() };
        let a3 = [ins(1, 1, 0), Op::Rem { k: 1 }, Op::Settle];
        for h in sequences(&a3, 3).into_iter().chain(sequences(&a3, 4)) {
            if h.iter().filter(|o| matches!(o, Op::Ins { .. })).count() < 2 || !h.contains(&Op::Rem { k: 1 }) {
                continue;
            }
            let mut a = h.clone();
            a.extend([Op::Wait, Op::Get { k: 1 }, Op::Get { k: 2 }, Op::Snap]);
            jobs.push(job(conc(&vcfg, flavor, &[], vec![a]), &[2], "c10-same-key"));
        }
    }
    // another client holds a lookup guard on the same shard while this client's insert is applied
    // and its barrier served: Ok still means "retrievable"
    for b in [vec![Op::GetYield { k: 1 }], vec![Op::GetYield { k: 1 }, Op::GetYield { k: 1 }], vec![Op::Mut { k: 1 }, Op::GetYield { k: 1 }]] {
        let a = vec![ins(257, 1, 0), Op::Wait, Op::Get { k: 257 }, Op::Get { k: 1 }];
        jobs.push(job(conc(&Cfg::default(), flavor, &[ins(1, 1, 0)], vec![a, b.clone()]), &[2], "c10-shard-held"));
    }
    // inserts with a TTL before the barrier: the largest Duration there is; and a key re-inserted
    // after its earlier TTL ran out but before the sweep collected it (the dead entry and its charge
    // are still there when the new item is applied)
    for cfg in [Cfg::default(), Cfg { cleanup_ms: 3_600_000, ..Cfg::default() }] {
        for h in [
            vec![ins(1, 1, TTL_MAX)],
            vec![ins(1, 1, 0), ins(1, 1, TTL_MAX)],
            vec![ins(1, 1, TTL_MAX), ins(2, 1, 0), Op::Rem { k: 1 }],
            vec![ins(1, 1, 300), Op::Adv { ms: 500 }, ins(1, 1, 0)],
            vec![ins(1, 1, 300), Op::Adv { ms: 500 }, ins(1, 1, 1000)],
            vec![ins(1, 1, 300), Op::Settle, Op::Adv { ms: 500 }, ins(1, 1, 0)],
            vec![ins(1, 1, 300), Op::Settle, Op::Adv { ms: 500 }, ins(1, 1, 1000), ins(2, 1, 0)],
            vec![ins(1, 1, 300), Op::Settle, Op::Adv { ms: 1500 }, ins(1, 1, 0)],
            vec![ins(1, 1, 300), Op::Settle, Op::Adv { ms: 500 }, Op::Rem { k: 1 }, ins(1, 1, 0)],
        ] {
            let mut a = h.clone();
            a.extend([Op::Wait, Op::Get { k: 1 }, Op::Get { k: 2 }, Op::Snap]);
            jobs.push(job(conc(&cfg, flavor, &[], vec![a]), &[2], "c10-ttl"));
        }
    }
    // the client's own clear() with work still buffered, then an insert / remove and the barrier:
    // what is issued after clear() has returned is no longer the clear's to discard
    for pre in bodies(&[ins(1, 1, 0), ins(2, 1, 0), Op::Rem { k: 1 }], 2) {
        for tail in [vec![ins(3, 1, 0)], vec![ins(1, 1, 0)], vec![ins(3, 1, 0), Op::Rem { k: 3 }], vec![Op::Rem { k: 2 }, ins(3, 1, 0)]] {
            for buf in [2usize, 8] {
                if quick && buf == 2 {
                    continue;
                }
                let cfg = Cfg { buffer_size: buf, ..Cfg::default() };
                let mut a = pre.clone();
                a.push(Op::Clear);
                a.extend(tail.iter().copied());
                a.extend([Op::Wait, Op::Get { k: 1 }, Op::Get { k: 2 }, Op::Get { k: 3 }, Op::Snap]);
                jobs.push(job(conc(&cfg, flavor, &[], vec![a]), if quick { &[1] } else { &[2] }, "c10-own-clear"));
            }
        }
    }
    // a TTL given to / taken from a resident key (filed in the expiry index under the shard lock, on
    // the client's thread) or its removal, then the barrier, racing a clear() from another client
    // (the processor wipes shards and index): everybody returns
    for a in [vec![ins(2, 1, 1000), Op::Wait, Op::Get { k: 2 }], vec![ins(1, 1, 0), Op::Wait, Op::Get { k: 1 }], vec![Op::Rem { k: 1 }, ins(2, 1, 1000), Op::Wait, Op::Get { k: 2 }]] {
        for b in [vec![Op::Clear], vec![Op::Clear, Op::Clear]] {
            jobs.push(job(conc(&Cfg::default(), flavor, &[ins(1, 1, 1000), ins(2, 1, 0)], vec![a.clone(), b.clone()]), &[2], "c10-ttl-refresh-vs-clear"));
        }
    }
    // a client that holds a lookup guard calls into the policy (max_cost()) while the sweep for an
    // expired entry of the same shard is due: the sweep waits for the guard, the guard's owner
    // for nothing the sweep holds; then the barrier
    for b in [vec![Op::Adv { ms: 2500 }], vec![Op::Adv { ms: 2500 }, ins(3, 1, 0), Op::Wait]] {
        let a = vec![Op::GetMaxCost { k: 1 }, ins(2, 1, 0), Op::Wait, Op::Get { k: 2 }];
        jobs.push(job(conc(&Cfg::default(), flavor, &[ins(1, 1, 0), ins(257, 1, 1000)], vec![a, b.clone()]), &[2], "c10-guard-into-policy"));
    }
    // a client keeps a lookup guard on a shard while (virtual) time passes - 0.6 s, long against any
    // internal time-out - and another client's insert into that shard waits to be applied: the
    // barrier behind it returns only once the insert is applied, however long that takes
    for a in [vec![ins(257, 1, 0), Op::Wait, Op::Get { k: 257 }], vec![ins(257, 1, 0), ins(2, 1, 0), Op::Wait, Op::Get { k: 257 }, Op::Get { k: 2 }]] {
        jobs.push(job(conc(&Cfg::default(), flavor, &[ins(1, 1, 0)], vec![a.clone(), vec![Op::GetHold { k: 1, ms: 600 }]]), &[2], "c10-guard-held-for-long"));
    }
    // waits with nothing pending, racing close/clear directly
    for threads in [
        vec![vec![Op::Wait], vec![Op::Close]],
        vec![vec![Op::Wait, Op::Wait], vec![Op::Clear, Op::Close]],
        vec![vec![ins(1, 1, 0), Op::Wait], vec![Op::Close], vec![Op::Close]],
    ] {
        for buf in [1usize, 8] {
            let cfg = Cfg { buffer_size: buf, ..Cfg::default() };
            let small = threads.len() == 2 && threads.iter().all(|t| t.len() == 1);
            // (quick tier: the full bound with the one-slot buffer, one less with the roomy one)
            let b: &[usize] = if small {
                if quick { if buf == 1 { &[2] } else { &[1] } } else { &[3] }
            } else if threads.len() > 2 {
                if quick { &[0] } else { &[1] }
            } else if quick {
                if buf == 1 { &[1] } else { &[0] }
            } else {
                &[2]
            };
            let dev: &[usize] = if threads.len() > 2 { if quick { &[2] } else { &[5] } } else { &[] };
            jobs.push(job_dev(conc(&cfg, flavor, &[], threads.clone()), b, dev, "c10-term"));
        }
    }
    Spec {
        id: "C10",
        jobs,
        oracle: o_c10,
        interesting: |_, t| t.recs.iter().any(|r| r.op == Op::Wait && r.res == Res::Unit),
        rule: format!(
            "client A: every history of <= {} operations over {{I(1), I(2), R(1), R(2), P(1), W}}, then wait(), then (without settling) G(1), G(2) and a facade snapshot; other clients: none | another waiter | clear | close | clear;close | close + a second waiter | two more waiters; insert buffer sizes 1, 2, 8; all schedules up to preemption bound {} and all select choices. Barrier oracle: after an Ok wait A's inserts are retrievable and charged, its removes are gone (a concurrent clear may discard inserts); termination: a wait() that never returns is a blocked-forever task = deadlock report; plus the families c10-same-key, c10-shard-held, c10-ttl (TTL of Duration::MAX; a key re-inserted after its TTL ran out, before the sweep) c10-own-clear (the client's own clear() with work buffered, then insert / remove and the barrier), c10-ttl-refresh-vs-clear, c10-guard-held-for-long (a lookup guard kept while 0.6 s pass and another client's insert into that shard waits) and c10-guard-into-policy (a client holding a lookup guard calls max_cost() while the sweep of that shard is due); non-trivial = some wait() returned Ok",
            if quick { 2 } else { 3 },
            if quick { 2 } else { 3 }
        ),
        assumptions: all_std(),
    }
}

// ------------------------------------------------------------------------------------------------
// C11

/// The sequential `post` section (run by client 0 after every thread was joined) on a cache with
/// ample capacity: an insert without TTL that is followed by quiescence stays retrievable until the
/// section removes, overwrites or clears it, however much idle time passes ("behaves like a fresh
/// cache" after whatever the racing part did).
fn o_post_map(p: &Program, t: &Trace) -> Vec<Finding> {
    let mut out = Vec::new();
    if p.cfg.max_cost < 100 || p.cfg.validator != ValidatorMode::Always {
        return out;
    }
    let mut post: Vec<&Rec> = t.recs.iter().filter(|r| r.th == 0 && r.idx >= 500).collect();
    post.sort_by_key(|r| r.idx);
    for (i, w) in post.iter().enumerate() {
        let k = match w.op {
            Op::Ins { k, ttl_ms: 0, .. } if w.res == Res::Bool(true) => k,
            _ => continue,
        };
        if !matches!(post.get(i + 1).map(|r| r.op), Some(Op::Settle)) {
            continue;
        }
        for l in &post[i + 1..] {
            match l.op {
                Op::Rem { k: k2 } | Op::Ins { k: k2, .. } | Op::Pres { k: k2, .. } | Op::Mut { k: k2 } if k2 == k => break,
                Op::Clear | Op::Close | Op::MaxCost { .. } => break,
                Op::Get { k: k2 } if k2 == k => {
                    if !matches!(&l.res, Res::Val(Some((v, _))) if Some(*v) == w.wrote) {
                        out.push(("map-entry-lost".to_string(), format!("{} (post section, ample capacity, no TTL, applied before a quiescent point) but the later {} returned {:?}", w.op.short(), l.op.short(), l.res)));
                        return out;
                    }
                }
                _ => {}
            }
        }
    }
    out
}

fn o_c11(p: &Program, t: &Trace) -> Vec<Finding> {
    let mut v = o_clear_empty(p, t);
    v.extend(o_post_map(p, t));
    v.extend(o_lookup(p, t));
    v.extend(o_agree(p, t));
    // (the exact-map and metrics oracles presuppose charges that fit the budget and do not saturate)
    let huge = p.setup.iter().chain(p.threads.iter().flatten()).any(|o| matches!(o, Op::Ins { c, .. } | Op::Pres { c, .. } if *c > 1_000_000));
    if is_settled(p) && !huge {
        v.extend(o_map(p, t));
    }
    if p.cfg.metrics && !huge {
        v.extend(o_metrics(p, t));
    }
    if p.cfg.num_counters >= 1000 && p.cfg.buffer_items == 1 && p.threads.len() == 1 {
        // "behaves like a fresh one": no popularity survives the clear
        v.extend(o_c13_cache(p, t));
    }
    v
}

pub fn c11(tier: &str, flavor: Flavor) -> Spec {
    let quick = tier == "quick";
    let mut jobs = Vec::new();
    let mut palpha = Vec::new();
    for k in [1u64, 2] {
        for ttl in [0u64, 1000, 3000] {
            palpha.push(ins(k, 1, ttl));
        }
        palpha.push(Op::Rem { k });
        palpha.push(Op::Get { k });
    }
    let prefixes = bodies(&palpha, if quick { 2 } else { 3 });
    // suffixes: re-use keys with a different TTL or none, then let time pass and look again
    let suffixes: Vec<Vec<Op>> = vec![
        vec![],
        vec![Op::Settle, ins(1, 1, 0), Op::Settle, Op::Adv { ms: 1500 }, Op::Settle, Op::Adv { ms: 2000 }, Op::Settle, Op::Get { k: 1 }, Op::Ttl { k: 1 }],
        vec![ins(1, 1, 0), Op::Settle, Op::Adv { ms: 1500 }, Op::Settle, Op::Adv { ms: 2000 }, Op::Settle, Op::Get { k: 1 }],
        vec![Op::Settle, ins(1, 1, 5000), ins(2, 1, 0), Op::Settle, Op::Adv { ms: 2000 }, Op::Settle, Op::Adv { ms: 2000 }, Op::Settle, Op::Get { k: 1 }, Op::Get { k: 2 }],
        vec![Op::Get { k: 1 }, Op::Get { k: 2 }],
    ];
    for metrics in [false, true] {
        let cfg = Cfg { metrics, ..Cfg::default() };
        for pre in &prefixes {
            for suf in &suffixes {
                let mut ops = pre.clone();
                ops.push(Op::Clear);
                ops.extend(suf.iter().copied());
                jobs.push(job(single(&cfg, flavor, ops), if quick { &[1] } else { &[2] }, "c11-seq"));
            }
        }
    }
    // settled variant with the exact-map oracle (keys re-used across the clear)
    {
        let cfg = Cfg::default();
        for pre in &prefixes {
            for suf in [vec![ins(1, 1, 0), Op::Adv { ms: 2000 }, Op::Adv { ms: 2000 }, Op::Get { k: 1 }], vec![ins(1, 1, 2500), ins(2, 1, 0), Op::Adv { ms: 2000 }, Op::Get { k: 1 }, Op::Get { k: 2 }, Op::Adv { ms: 2000 }, Op::Get { k: 1 }, Op::Get { k: 2 }]] {
                let mut ops = pre.clone();
                ops.push(Op::Clear);
                ops.extend(suf);
                jobs.push(job(single(&cfg, flavor, settled(&ops)), &[0], "c11-settled"));
            }
        }
    }
    // E-conc
    let cfg = Cfg::default();
    let calpha = [ins(1, 1, 0), ins(2, 1, 1000), Op::Rem { k: 1 }, Op::Get { k: 1 }];
    let bs = bodies(&calpha, 2);
    for a in &bs {
        for b in [vec![Op::Clear], vec![Op::Clear, ins(1, 1, 1000)], vec![Op::Clear, Op::Get { k: 1 }]] {
            for setup in [vec![], vec![ins(1, 1, 0), ins(2, 1, 0)]] {
                if quick && !setup.is_empty() && a.len() > 1 {
                    continue;
                }
                jobs.push(job(conc(&cfg, flavor, &setup, vec![a.clone(), b.clone()]), &[2], "c11-conc"));
            }
        }
    }
    // a client re-filing a resident key in the expiry index (update with a TTL) while the clear
    // wipes store and index; afterwards the key is used without TTL and must not expire
    for a in [vec![ins(2, 1, 1000)], vec![ins(2, 1, 1000), ins(1, 1, 1000)], vec![ins(1, 1, 1000), Op::Get { k: 1 }]] {
        for b in [vec![Op::Clear], vec![ins(2, 1, 1000), Op::Clear]] {
            let mut p = conc(&cfg, flavor, &[ins(1, 1, 0), ins(2, 1, 0)], vec![a.clone(), b.clone()]);
            p.post = vec![Op::Settle, Op::Rem { k: 1 }, Op::Rem { k: 2 }, Op::Settle, ins(1, 1, 0), Op::Settle, ins(2, 1, 0), Op::Settle, Op::Adv { ms: 1500 }, Op::Settle, Op::Adv { ms: 1500 }, Op::Settle, Op::Get { k: 1 }, Op::Get { k: 2 }];
            jobs.push(job(p, &[2], "c11-conc-ttl-update"));
        }
    }
    // charges at the edge of the i64 range (the total saturates) before the clear: afterwards the
    // charged total is zero like on a fresh cache
    {
        let bcfg = Cfg { max_cost: 10, metrics: true, ..Cfg::default() };
        for big in [i64::MAX, i64::MAX - 56, 5_000_000_000_000_000_000] {
            for pre in [vec![ins(1, 4, 0), ins(2, 4, 0), ins(1, big, 0)], vec![ins(1, 4, 0), ins(2, 4, 0), ins(1, big, 0), ins(2, big, 0)], vec![ins(1, 4, 0), Op::Pres { k: 1, c: big }, ins(2, 1, 0)]] {
                let mut ops = pre.clone();
                ops.extend([Op::Clear, ins(3, 1, 0), ins(4, 1, 0), Op::Get { k: 3 }]);
                jobs.push(job(single(&bcfg, flavor, settled(&ops)), &[0], "c11-boundary-costs"));
            }
        }
    }
    // every metrics stripe restarts from zero
    jobs.extend(stripe_jobs(flavor, "c11-stripes"));
    // two clients clearing at the same time (the second call finds the first one's request still
    // pending): each clear() has taken effect when IT returns - nothing older is served to its
    // caller, what the caller inserts afterwards stays
    for a in [vec![Op::Clear, Op::Get { k: 1 }], vec![Op::Clear, ins(7, 1, 0), Op::Wait, Op::Get { k: 7 }], vec![ins(2, 1, 0), Op::Clear, Op::Get { k: 2 }, ins(7, 1, 0)]] {
        for b in [vec![Op::Clear], vec![Op::Clear, Op::Get { k: 1 }], vec![ins(3, 1, 0), Op::Clear]] {
            let mut p = conc(&Cfg { metrics: true, ..Cfg::default() }, flavor, &[ins(1, 1, 0)], vec![a.clone(), b.clone()]);
            p.post = vec![Op::Settle, Op::Get { k: 1 }, Op::Get { k: 7 }, Op::Settle];
            jobs.push(job(p, if quick { &[1] } else { &[2] }, "c11-two-clears"));
        }
    }
    // residents charged nothing in total at the moment of the clear
    jobs.extend(uncharged_clear_jobs(flavor, quick, true, "c11-uncharged-clear"));
    // the popularity of keys looked up before the clear (hits and misses; key hashes 1, 2^63 and
    // u64::MAX, whose doorkeeper positions are the last ones of the filter) does not survive it
    {
        let ecfg = Cfg { num_counters: 1000, buffer_items: 1, ..Cfg::default() };
        let big = u64::MAX;
        let ea = [Op::Get { k: 1 }, Op::Get { k: big }, Op::Get { k: 1 << 63 }, ins(big, 1, 0), Op::Rem { k: big }, Op::Clear];
        for s in sequences(&ea, if quick { 4 } else { 5 }) {
            if !s.iter().any(is_lookup_op) {
                continue;
            }
            let mut ops = s.clone();
            ops.extend([Op::Clear, Op::Settle, Op::Get { k: big }, Op::Get { k: 1 }]);
            jobs.push(job(single(&ecfg, flavor, settled(&ops)), &[0], "c11-estimator"));
        }
    }
    Spec {
        id: "C11",
        jobs,
        oracle: o_c11,
        interesting: |_, t| t.recs.iter().any(|r| r.op == Op::Clear && r.res == Res::Unit) && t.recs.iter().any(|r| ok_write(r)),
        rule: format!(
            "E-seq: [every prefix of <= {} operations over {{I(k,none/1s/3s), R(k), G(k)}} k in 1..2] X [5 suffixes re-using the keys with another TTL / none, idling 3.5 s, looking again], not settled around X, preemption bound {}, with and without metrics; the same prefixes with settled suffixes under the exact-map oracle; E-conc: client A bodies of <= 2 operations from {{I(1), I(2,1s), R(1), G(1)}} against B in {{X, X;I(1,1s), X;G(1)}} x 2 pre-states at bound 2; TTL updates of resident keys racing the clear, followed (after the join) by remove, re-insert without TTL, 3 s of idle time and lookups; one settled history through a clear per metrics stripe (keys 25..49); clear() on residents charged nothing in total; lookups of key hashes 1, 2^63, u64::MAX before the clear leave no popularity behind (estimates read at every quiescent point after it); oracle: nothing inserted before the clear() call is resident/retrievable after it returned + quiescence, len/used/metrics zero unless something was inserted afterwards, fresh-cache behaviour for re-used keys; non-trivial = a successful write and a clear happened",
            if quick { 2 } else { 3 },
            if quick { 1 } else { 2 }
        ),
        assumptions: all_std(),
    }
}

// ------------------------------------------------------------------------------------------------
// C12

fn o_c12(p: &Program, t: &Trace) -> Vec<Finding> {
    o_close(p, t)
}

pub fn c12(tier: &str, flavor: Flavor) -> Spec {
    let quick = tier == "quick";
    let mut jobs = Vec::new();
    let cfg = Cfg::default();
    let pre: Vec<Vec<Op>> = vec![vec![], vec![ins(1, 1, 0), ins(2, 1, 1000)]];
    let tails = vec![ins(1, 1, 0), Op::Get { k: 1 }, Op::Mut { k: 1 }, Op::Rem { k: 1 }, Op::Clear, Op::Wait, Op::Close, Op::Pres { k: 1, c: 1 }];
    let shapes: Vec<Vec<Vec<Op>>> = vec![
        vec![vec![Op::Close], vec![Op::Close]],
        vec![vec![Op::Close], vec![Op::Close], vec![Op::Close]],
        vec![vec![Op::Close], vec![ins(1, 1, 0)]],
        vec![vec![Op::Close], vec![Op::Rem { k: 1 }]],
        vec![vec![Op::Close], vec![Op::Clear]],
        vec![vec![Op::Close], vec![Op::Get { k: 1 }, Op::Mut { k: 1 }]],
        vec![vec![Op::Close, Op::Close]],
        vec![vec![ins(3, 1, 0), Op::Close], vec![ins(1, 1, 0), Op::Close]],
        // a closer goes on using the cache right after ITS close() returned, while the other closer
        // may still be in the middle of its own
        vec![vec![Op::Close], vec![Op::Close, Op::Wait]],
        vec![vec![Op::Close], vec![Op::Close, Op::Rem { k: 1 }]],
        vec![vec![Op::Close], vec![Op::Close, Op::Clear]],
        vec![vec![Op::Close], vec![Op::Close, ins(1, 1, 0), Op::Get { k: 1 }]],
        // a wait() (with and without work queued before it) racing the close: it returns
        vec![vec![Op::Close], vec![Op::Wait]],
        vec![vec![Op::Close], vec![ins(1, 1, 0), Op::Wait]],
        vec![vec![Op::Close], vec![Op::Wait, Op::Wait]],
    ];
    for setup in &pre {
        for sh in &shapes {
            for buffered in [false, true] {
                // (the wait-vs-close shapes: without pre-history / buffered work in the quick tier)
                let waits = sh.iter().skip(1).any(|t| t.contains(&Op::Wait) && !t.contains(&Op::Close));
                if quick && waits && (buffered || !setup.is_empty()) {
                    continue;
                }
                let mut threads = sh.clone();
                if buffered {
                    // buffered, not yet applied work at the moment of close
                    threads[0].insert(0, ins(2, 1, 0));
                    threads[0].insert(0, ins(1, 1, 0));
                }
                // (quick tier, bound 2: two single calls, or one call against two that do not start with a second close)
                let small = setup.is_empty() && !buffered && sh.len() == 2 && sh.iter().all(|t| t.len() <= 2) && sh[0].len() == 1 && !waits && !(sh[1].len() == 2 && sh[1][0] == Op::Close);
                let b: &[usize] = if sh.len() > 2 {
                    if quick { &[0] } else { &[1] }
                } else if quick {
                    if small { &[2] } else { &[1] }
                } else {
                    &[2]
                };
                let mut p = conc(&cfg, flavor, setup, threads);
                // after the racing part, every kind of call on the closed cache
                p.post = tails.clone();
                // programs with 3 clients additionally in deviation-bounded mode (deeper)
                let dev: &[usize] = if sh.len() > 2 { if quick { &[2] } else { &[4] } } else if quick { &[] } else { &[4] };
                jobs.push(job_dev(p, b, dev, "c12"));
            }
        }
    }
    // lookups whose batches reach the policy worker (buffer_items 0 / 1: every lookup flushes) while
    // another client closes: the stop hand-over to the worker and its batch handling must not wait
    // for each other
    for buffer_items in [0usize, 1] {
        let lcfg = Cfg { buffer_items, ..cfg.clone() };
        for looks in [vec![Op::Get { k: 1 }], vec![Op::Get { k: 1 }, Op::Get { k: 2 }], vec![Op::Mut { k: 1 }, Op::Get { k: 1 }]] {
            let mut p = conc(&lcfg, flavor, &[ins(1, 1, 0)], vec![vec![Op::Close], looks.clone()]);
            p.post = vec![Op::Get { k: 1 }, Op::Close, Op::Wait];
            jobs.push(job(p, &[2], "c12-lookups-vs-close"));
        }
    }
    // every handle dropped without close(): workers must terminate
    for setup in &pre {
        jobs.push(job(conc(&cfg, flavor, setup, vec![vec![ins(3, 1, 0), Op::DropHandle]]), &[2], "c12-drop"));
        jobs.push(job(conc(&cfg, flavor, setup, vec![vec![Op::DropHandle]]), &[2], "c12-drop"));
    }
    Spec {
        id: "C12",
        jobs,
        oracle: o_c12,
        interesting: |_, t| t.recs.iter().any(|r| r.op == Op::Close && r.res == Res::Unit),
        rule: "close races: Z|Z, Z|Z|Z, Z|I, Z|R, Z|X, Z|G;M, Z;Z, I;Z|I;Z, Z|W, Z|I;W, Z|W;W, each x 2 pre-histories x {no, some} buffered work, followed on thread 0 by every kind of call on the closed cache; plus lookups flushing batches to the policy worker (buffer_items 0 / 1) while another client closes, plus programs that drop every handle without close(); all schedules up to preemption bound 2 (3 for two-thread shapes in the thorough tier); oracle: no panic / no deadlock (engine), every call that begins after a close() returned Ok is refused without effect, both workers have terminated at the final quiescent point; non-trivial = some close() returned Ok".into(),
        assumptions: {
            let mut a = all_std();
            a.push("drop-without-close relies on the fairness rule of DESIGN §4.1 for the disconnected-channel spin of the worker".into());
            a
        },
    }
}

// ------------------------------------------------------------------------------------------------
// C17

fn o_c17(p: &Program, t: &Trace) -> Vec<Finding> {
    let mut v = o_metrics(p, t);
    // "counters restart from zero at clear()" presupposes that a clear() has taken effect when it
    // returns: with several clients clearing, the lookup clauses tell a clear() acknowledged before
    // its wipe (every counter value it leaves is also reachable by a legal order of the calls)
    if p.threads.len() > 1 && p.threads.iter().flatten().filter(|o| **o == Op::Clear).count() > 1 {
        v.extend(o_lookup(p, t));
    }
    // sets_rejected == the policy's popularity rejections (observed rounds with inc_hits < min_hits)
    if let Some(s) = t.snaps.iter().rev().find(|s| s.quiescent) {
        if let Some(m) = &s.metrics {
            let cleared = t.recs.iter().any(|r| matches!(r.op, Op::Clear | Op::Close));
            if !cleared {
                let rej = t.evict_rounds.iter().filter(|r| r.inc_hits < r.min_hits).count() as u64;
                if m.sets_rejected != rej {
                    v.push(("metrics-sets-rejected".to_string(), format!("sets_rejected {} but the policy rejected {} newcomers for popularity", m.sets_rejected, rej)));
                }
            }
            // histogram: count == sum of buckets (parsed from the public Display form)
            let sum: i64 = m
                .life_display
                .lines()
                .filter(|l| l.starts_with('['))
                .filter_map(|l| l.split_whitespace().nth(2).and_then(|x| x.parse::<i64>().ok()))
                .sum();
            if m.life_count >= 0 && sum != m.life_count {
                v.push(("metrics-histogram".to_string(), format!("life-expectancy histogram count {} != sum of its buckets {}", m.life_count, sum)));
            }
        }
    }
    v
}

pub fn c17(tier: &str, flavor: Flavor) -> Spec {
    let quick = tier == "quick";
    let mut jobs = Vec::new();
    let mut alpha = Vec::new();
    for k in [1u64, 2, 3] {
        alpha.push(ins(k, 1, 0));
    }
    alpha.push(ins(1, 2, 0));
    alpha.push(ins(2, 1, 1000));
    alpha.push(Op::Pres { k: 1, c: 1 });
    alpha.push(Op::Rem { k: 1 });
    alpha.push(Op::Get { k: 1 });
    alpha.push(Op::Get { k: 3 });
    alpha.push(Op::Mut { k: 2 });
    alpha.push(Op::Adv { ms: 1500 });
    alpha.push(Op::Clear);
    alpha.push(Op::MaxCost { m: 1 });
    for (max_cost, buf) in [(2i64, 8usize), (100, 8)] {
        let cfg = Cfg { metrics: true, max_cost, buffer_size: buf, ..Cfg::default() };
        for s in sequences(&alpha, if quick { 3 } else { 4 }) {
            jobs.push(job(single(&cfg, flavor, settled(&s)), &[0], "c17-settled"));
        }
    }
    // entries charged exactly zero (cost 0, Coster 0, internal cost ignored) are keys all the same
    {
        let zcfg = Cfg { metrics: true, max_cost: 100, coster_base: 0, coster_mod: 0, ignore_internal_cost: true, ..Cfg::default() };
        let zero = |o: &Op| match *o {
            Op::Ins { k, ttl_ms, .. } => Op::Ins { k, c: 0, ttl_ms },
            Op::Pres { k, .. } => Op::Pres { k, c: 0 },
            x => x,
        };
        for s in sequences(&alpha, if quick { 3 } else { 4 }) {
            let ops: Vec<Op> = s.iter().map(zero).collect();
            jobs.push(job(single(&zcfg, flavor, settled(&ops)), &[0], "c17-zero-charge"));
        }
    }
    // ... and so are entries charged less than nothing: the cost counters are modular, their
    // difference is the charged total
    {
        let ncfg = Cfg { metrics: true, max_cost: 100, coster_base: 0, coster_mod: 0, ignore_internal_cost: true, ..Cfg::default() };
        let neg = |o: &Op| match *o {
            Op::Ins { k, ttl_ms, c } => Op::Ins { k, c: if k == 1 { -3 } else { c + 1 }, ttl_ms },
            Op::Pres { k, .. } => Op::Pres { k, c: -1 },
            x => x,
        };
        for s in sequences(&alpha, if quick { 3 } else { 4 }) {
            let ops: Vec<Op> = s.iter().map(neg).collect();
            jobs.push(job(single(&ncfg, flavor, settled(&ops)), &[0], "c17-negative-charge"));
        }
    }
    // tiny insert buffer, processor not scheduled between the inserts: sets_dropped
    for buf in [1usize, 2] {
        let cfg = Cfg { metrics: true, max_cost: 100, buffer_size: buf, ..Cfg::default() };
        let a2 = [ins(1, 1, 0), ins(2, 1, 0), ins(3, 1, 0), ins(1, 1, 0), Op::Get { k: 1 }, Op::Settle];
        for s in sequences(&a2, if quick { 4 } else { 5 }) {
            jobs.push(job(single(&cfg, flavor, s), &[0], "c17-drops"));
        }
    }
    // E-conc with the metric stripes as scheduling points
    let cfg = Cfg { metrics: true, metrics_points: true, max_cost: 2, ..Cfg::default() };
    let calpha = [Op::Get { k: 1 }, Op::Mut { k: 1 }, ins(1, 1, 0), ins(3, 1, 0), Op::Rem { k: 1 }];
    let bs = bodies(&calpha, if quick { 1 } else { 2 });
    for setup in [vec![], vec![ins(1, 1, 0), ins(2, 1, 0)]] {
        for a in &bs {
            for b in &bs {
                jobs.push(job(conc(&cfg, flavor, &setup, vec![a.clone(), b.clone()]), &[2], "c17-conc"));
            }
        }
    }
    // a clear() racing another client's writes: the counters restart exactly where policy and
    // store are wiped, so the conservation laws hold at the next quiescent point
    for setup in [vec![], vec![ins(1, 1, 0), ins(2, 1, 0)]] {
        for a in [vec![Op::Clear], vec![Op::Clear, ins(3, 1, 0)], vec![ins(3, 1, 0), Op::Clear]] {
            for b in &bs {
                jobs.push(job(conc(&cfg, flavor, &setup, vec![a.clone(), b.clone()]), &[2], "c17-conc-clear"));
            }
        }
    }
    // two clients clearing: every clear() restarts the counters, also one that was requested while
    // the processor was still busy with another
    for a in [vec![Op::Clear], vec![Op::Get { k: 1 }, Op::Clear]] {
        for b in [vec![Op::Clear], vec![Op::Get { k: 1 }, Op::Clear], vec![Op::Get { k: 2 }, Op::Clear, Op::Get { k: 1 }]] {
            jobs.push(job(conc(&cfg, flavor, &[ins(1, 1, 0)], vec![a.clone(), b.clone()]), &[1], "c17-two-clears"));
        }
    }
    jobs.extend(popular_jobs(flavor, true, quick, "c17-popular"));
    jobs.extend(stripe_jobs(flavor, "c17-stripes"));
    Spec {
        id: "C17",
        jobs,
        oracle: o_c17,
        interesting: |_, t| t.snaps.last().and_then(|s| s.metrics.as_ref()).map(|m| m.keys_added > 0 || m.hits > 0).unwrap_or(false),
        rule: format!(
            "metrics on. E-seq: every settled history of depth {} over 13 symbols (I(k), I(1,2), I(2,1s), P(1), R(1), G(1), G(3), M(2), A(1.5s), X, U(1)) at max_cost 2 and 100, once more with zero-charge entries and once more with entries charged -3 / -1, conservation laws evaluated at EVERY quiescent point; unsettled histories over {{I(1), I(2), I(3), I(1), G(1), S}} with insert buffer 1 and 2 (forces sets_dropped); E-conc: two clients x bodies of <= {} operations from {{G(1), M(1), I(1), I(3), R(1)}} x 2 pre-states with the metric stripes as scheduling points, preemption bound 2; the same bodies against a client doing X / X;I(3) / I(3);X at bound 2; two clearing clients (lookups before / after their clears) at bound 1; one settled history (hit, miss, update, TTL expiry, remove, clear, fresh start) per metrics stripe (keys 25..49); non-trivial = keys_added > 0 or hits > 0",
            if quick { 3 } else { 4 },
            if quick { 1 } else { 2 }
        ),
        assumptions: all_std(),
    }
}

// ------------------------------------------------------------------------------------------------
// C07 (cache part): the policy's decisions are carried out

/// Every sampling round observed in the policy (cfg-guarded observer) either evicts its minimum
/// (newcomer at least as popular) or rejects the newcomer; at the cache level every evicted
/// candidate leaves through on_evict and is not resident afterwards, and nothing else is evicted.
/// Histories without TTL, clear or close, so the contest is the only source of on_evict.
fn o_c07_cache(p: &Program, t: &Trace) -> Vec<Finding> {
    let mut out = Vec::new();
    let plain = p.threads.iter().chain(std::iter::once(&p.setup)).flatten().all(|o| !matches!(o, Op::Clear | Op::Close | Op::Adv { .. } | Op::AdvNs { .. } | Op::MaxCost { .. }) && !matches!(o, Op::Ins { ttl_ms, .. } if *ttl_ms > 0));
    if plain {
        let mut decided: BTreeMap<u64, usize> = BTreeMap::new();
        for r in &t.evict_rounds {
            if r.min_hits > r.inc_hits {
                continue;
            }
            if !r.sample.iter().any(|(k, _)| *k == r.min_key) {
                continue;
            }
            *decided.entry(r.min_key).or_default() += 1;
            // the victim is the least popular of the sample is checked on the component (C07 part 1)
        }
        let mut carried: BTreeMap<u64, usize> = BTreeMap::new();
        for e in t.ledger.iter().filter(|e| e.kind == CbKind::Evict) {
            *carried.entry(e.index).or_default() += 1;
        }
        for (k, n) in &decided {
            // (a remove() of the key may have taken the value out of the store before the policy
            // got to evict its charge: then there is nothing left to hand to on_evict)
            let removed_by_client = p.threads.iter().flatten().any(|o| matches!(o, Op::Rem { k: rk } if p.cfg.build_key(*rk).0 == *k));
            if carried.get(k).copied().unwrap_or(0) < 1 && !removed_by_client {
                out.push(("eviction-not-carried-out".to_string(), format!("the policy evicted key {} ({} round(s)) but no value of that key was handed to on_evict", k, n)));
            }
        }
        for (k, n) in &carried {
            if !decided.contains_key(k) {
                out.push(("eviction-without-contest".to_string(), format!("{} value(s) of key {} were handed to on_evict although no sampling round chose it", n, k)));
            }
        }
    }
    out.extend(o_agree(p, t));
    out.extend(o_policy(p, t));
    out
}

pub fn c07_cache(tier: &str, flavor: Flavor) -> Spec {
    let quick = tier == "quick";
    let mut jobs = popular_jobs(flavor, false, quick, "c07-popular");
    // settled variants of the same histories: every admission is decided on a quiescent cache
    let extra: Vec<Job> = jobs
        .iter()
        .filter(|j| j.program.threads.len() == 1)
        .map(|j| {
            let mut p = j.program.clone();
            p.threads[0] = settled(&p.threads[0].iter().copied().filter(|o| *o != Op::Settle).collect::<Vec<_>>());
            job(p, &[0], "c07-popular-settled")
        })
        .collect();
    jobs.extend(extra);
    Spec {
        id: "C07",
        jobs,
        oracle: o_c07_cache,
        interesting: |_, t| !t.evict_rounds.is_empty(),
        rule: "cache level: warm pre-states with skewed popularity (buffer_items 1: every lookup reaches the estimator), capacity 10, every history of depth 3 (quick) / 4 over {I(3,10), I(3,6), I(5,4), I(1,5), R(1), G(1), G(3), S} unsettled and settled, select/scheduling choices at preemption bound 0; every sampling round the policy ran is observed and its outcome must be carried out by the cache: evicted candidates leave through on_evict and are not resident at the next quiescent point, nothing else is evicted, store and policy agree; non-trivial = a sampling round ran".into(),
        assumptions: all_std(),
    }
}

// ------------------------------------------------------------------------------------------------
// C13 at the cache level: clear() zeroes the estimator whatever the cache holds at that moment

/// At the first quiescent point after a clear() of client 0 with nothing issued in between, every
/// program key estimates zero; and from there on a key never estimates more than the number of
/// lookups issued for it since that clear (1000 counters, at most three keys: no collisions).
fn o_c13_cache(p: &Program, t: &Trace) -> Vec<Finding> {
    let mut out = Vec::new();
    let mut recs: Vec<&Rec> = t.recs.iter().filter(|r| r.th == 0).collect();
    recs.sort_by_key(|r| r.idx);
    for c in recs.iter().filter(|r| r.op == Op::Clear && r.res == Res::Unit) {
        let next_clear = recs.iter().filter(|r| r.op == Op::Clear && r.call > c.call).map(|r| r.call).min().unwrap_or(u64::MAX);
        for s in t.snaps.iter().filter(|s| s.quiescent && s.at > c.ret && s.at < next_clear) {
            for (idx, est) in &s.estimates {
                let looked = recs.iter().filter(|r| r.call > c.ret && r.call < s.at && is_lookup(r) && r.op.key().map(|k| p.cfg.build_key(k).0) == Some(*idx)).count() as i64;
                if *est > looked {
                    out.push(("estimate-survived-clear".to_string(), format!("key {} estimates {} at a quiescent point after clear() although only {} lookup(s) of it were issued since the clear", idx, est, looked)));
                    return out;
                }
            }
        }
    }
    out
}

pub fn c13_cache(tier: &str, flavor: Flavor) -> Spec {
    let quick = tier == "quick";
    let cfg = Cfg { num_counters: 1000, buffer_items: 1, max_cost: 100, ..Cfg::default() };
    let alpha = [Op::Get { k: 1 }, Op::Get { k: u64::MAX }, Op::Mut { k: 1 }, ins(1, 1, 0), ins(1, 1, 500), Op::Rem { k: 1 }, Op::Clear, Op::Adv { ms: 2500 }];
    let mut jobs = Vec::new();
    for s in sequences(&alpha, if quick { 4 } else { 5 }) {
        if !s.iter().any(|o| is_lookup_op(o)) {
            continue;
        }
        let mut ops = s.clone();
        ops.extend([Op::Clear, Op::Settle, Op::Get { k: 1 }, Op::Get { k: 3 }, Op::Get { k: u64::MAX }, Op::Get { k: 1 }]);
        jobs.push(job(single(&cfg, flavor, settled(&ops)), &[0], "c13-cache-clear"));
    }
    Spec {
        id: "C13",
        jobs,
        oracle: o_c13_cache,
        interesting: |_, t| t.snaps.iter().any(|s| s.estimates.iter().any(|e| e.1 > 0)),
        rule: format!("cache level (1000 counters, buffer_items 1: every lookup reaches the estimator): every settled history of depth {} over {{G(1), G(u64::MAX), M(1), I(1), I(1,0.5s), R(1), X, A(2.5s)}} containing a lookup, then clear() - on a cache that holds entries, holds none because they were removed / expired, or never held any - and three more lookups; at every quiescent point after a clear() no key estimates more than the lookups issued for it since; non-trivial = some estimate was positive", if quick { 4 } else { 5 }),
        assumptions: all_std(),
    }
}

// ------------------------------------------------------------------------------------------------
// C19: what a closed cache still shows (len, get_ttl, metrics, entries) is the same on both flavours

pub fn c19_close_corpus(_tier: &str, flavor: Flavor) -> Spec {
    let cfg = Cfg { metrics: true, buffer_items: 1, ..Cfg::default() };
    let pre = [ins(1, 1, 5000), ins(2, 1, 0), Op::Get { k: 1 }, Op::Get { k: 9 }, Op::Rem { k: 2 }, Op::Adv { ms: 1000 }];
    let mut jobs = Vec::new();
    for s in sequences(&pre, 3) {
        let mut ops = s.clone();
        ops.extend([Op::Close, Op::Ttl { k: 1 }, Op::Ttl { k: 2 }, Op::Get { k: 1 }, Op::Close, Op::Adv { ms: 3000 }]);
        jobs.push(job(single(&cfg, flavor, settled(&ops)), &[0], "c19-closed-cache"));
    }
    Spec { id: "C19", jobs, oracle: |_, _| vec![], interesting: |_, _| true, rule: "settled histories of depth 3 over {I(1,5s), I(2), G(1), G(9), R(2), A(1s)} followed by close, get_ttl, get, close, idle time".into(), assumptions: all_std() }
}

// ------------------------------------------------------------------------------------------------
// C18 (cache part)

fn o_c18(p: &Program, t: &Trace) -> Vec<Finding> {
    let mut v = o_collide(p, t);
    v.extend(o_lookup(p, t));
    // an operation on one key must not un-charge (or charge) the other: C06 on colliding keys
    v.extend(o_agree(p, t));
    v
}

/// A client refreshing / overwriting / removing TTL entries while the cleanup tick that sweeps
/// their (due) expiry bucket is running: the clock jumps past the deadlines, then the client goes
/// on without waiting for quiescence.  Two TTL residents sharing a bucket, ample capacity.
fn tick_race_jobs(flavor: Flavor, quick: bool, tag: &str) -> Vec<Job> {
    let cfg = Cfg { max_cost: 100, ..Cfg::default() };
    let alpha = [ins(1, 1, 5000), ins(2, 1, 0), ins(2, 1, 5000), Op::Rem { k: 1 }, Op::Get { k: 2 }, Op::Pres { k: 1, c: 1 }];
    let mut jobs = Vec::new();
    for body in bodies(&alpha, if quick { 2 } else { 3 }) {
        let mut ops = vec![Op::Adv { ms: 2000 }];
        ops.extend(body.iter().copied());
        ops.extend([Op::Settle, Op::Get { k: 1 }, Op::Get { k: 2 }, Op::Settle]);
        let mut p = single(&cfg, flavor, ops);
        p.setup = vec![ins(1, 1, 1000), ins(2, 1, 1000)];
        jobs.push(job(p, &[2], tag));
    }
    jobs
}

/// The dead-entry family: key 1 is resident with a TTL that has run out, and the sweep that would
/// collect it is an hour away (the window between expiry and sweep, stretched); key 2 is resident
/// without TTL.  The client then runs every body of <= `len` operations over lookups, get_mut,
/// get_ttl, inserts (no TTL / 1 s TTL), insert_if_present and remove on the dead key, reaches
/// quiescence and looks both keys up.  `all_settled`: quiescence after every operation (the
/// sequential reference models apply), else only where the body says so (bound 1).
fn dead_entry_jobs(flavor: Flavor, len: usize, validator: ValidatorMode, all_settled: bool, tag: &str) -> Vec<Job> {
    let mut jobs = Vec::new();
    for cleanup_ms in [3_600_000u64, 1000] {
        let cfg = Cfg { max_cost: 100, cleanup_ms, validator, ..Cfg::default() };
        let alpha = [Op::Get { k: 1 }, Op::Mut { k: 1 }, Op::Ttl { k: 1 }, ins(1, 1, 0), ins(1, 1, 1000), Op::Pres { k: 1, c: 1 }, Op::Rem { k: 1 }, ins(2, 1, 0)];
        for body in bodies(&alpha, len) {
            let mut ops = vec![Op::Adv { ms: 500 }];
            ops.extend(body.iter().copied());
            ops.extend([Op::Settle, Op::Get { k: 1 }, Op::Get { k: 2 }, Op::Settle]);
            if cleanup_ms == 1000 {
                // the sweep comes round eventually
                ops.extend([Op::Adv { ms: 1000 }, Op::Settle, Op::Adv { ms: 1000 }, Op::Settle, Op::Get { k: 1 }, Op::Get { k: 2 }, Op::Settle]);
            }
            let mut pr = single(&cfg, flavor, if all_settled { settled(&ops) } else { ops });
            pr.setup = vec![ins(1, 1, 300), ins(2, 1, 0)];
            jobs.push(job(pr, if all_settled { &[0] } else { &[1] }, tag));
        }
    }
    jobs
}

/// clear() on a cache whose residents are charged nothing in total (cost 0 priced 0 by the Coster
/// with the internal cost ignored, or costs that cancel out: +3 and -3): the wipe does not depend
/// on what the policy has charged.  Settled histories of depth 3/4 (exact map) and unsettled ones of
/// depth 3 at bound 1.
fn uncharged_clear_jobs(flavor: Flavor, quick: bool, metrics: bool, tag: &str) -> Vec<Job> {
    let cfg = Cfg { coster_base: 0, ignore_internal_cost: true, max_cost: 100, metrics, buffer_items: 1, ..Cfg::default() };
    let alpha = [ins(1, 0, 0), ins(257, 0, 0), ins(1, 3, 0), ins(2, -3, 0), Op::Pres { k: 1, c: 0 }, Op::Mut { k: 1 }, Op::Clear, Op::Get { k: 1 }];
    let mut jobs = Vec::new();
    for s in sequences(&alpha, if quick { 3 } else { 4 }) {
        if !s.contains(&Op::Clear) || !s.iter().any(|o| matches!(o, Op::Ins { .. })) {
            continue;
        }
        let mut ops = s.clone();
        ops.extend([Op::Get { k: 1 }, Op::Get { k: 257 }, Op::Get { k: 2 }, Op::Clear, Op::Get { k: 1 }]);
        jobs.push(job(single(&cfg, flavor, settled(&ops)), &[0], tag));
        let mut ops = s.clone();
        ops.extend([Op::Get { k: 1 }, Op::Get { k: 257 }, Op::Get { k: 2 }, Op::Settle]);
        jobs.push(job(single(&cfg, flavor, ops), &[1], tag));
    }
    jobs
}

/// One settled history per metrics stripe (the counters are striped by key hash % 25): a hit, a
/// miss, an update, a remove, a clear and a fresh start on keys of that stripe.
fn stripe_jobs(flavor: Flavor, tag: &str) -> Vec<Job> {
    let cfg = Cfg { metrics: true, buffer_items: 1, ..Cfg::default() };
    (0..25u64)
        .map(|r| {
            let (a, b) = (r + 25, r + 50);
            let ops = vec![ins(a, 1, 0), Op::Get { k: a }, Op::Get { k: b }, ins(a, 2, 0), ins(b, 1, 1000), Op::Rem { k: a }, Op::Adv { ms: 1500 }, Op::Adv { ms: 1500 }, Op::Clear, Op::Get { k: a }, ins(a, 1, 0), Op::Get { k: a }];
            job(single(&cfg, flavor, settled(&ops)), &[0], tag)
        })
        .collect()
}

/// Histories on two keys sharing an index (2 and 4 under `KeyMode::Collide {m: 2}`) with TTLs and
/// clock advances that leave expired-but-unswept entries behind.
fn expiring_collide_histories(quick: bool) -> Vec<Vec<Op>> {
    let ea = [ins(2, 1, 500), ins(4, 1, 0), ins(4, 1, 500), ins(2, 1, 0), Op::Adv { ms: 600 }, Op::Adv { ms: 1000 }, Op::Get { k: 2 }, Op::Get { k: 4 }, Op::Mut { k: 2 }, Op::Ttl { k: 2 }, Op::Rem { k: 2 }];
    let mut v = Vec::new();
    for s in sequences(&ea, if quick { 4 } else { 5 }) {
        if !s.iter().any(|o| matches!(o, Op::Adv { .. })) || !s.iter().any(|o| matches!(o, Op::Ins { ttl_ms, .. } if *ttl_ms > 0)) {
            continue;
        }
        let mut ops = s.clone();
        ops.push(Op::Get { k: 2 });
        ops.push(Op::Get { k: 4 });
        ops.push(Op::Ttl { k: 2 });
        ops.push(Op::Ttl { k: 4 });
        v.push(ops);
    }
    v
}

pub fn c18(tier: &str, flavor: Flavor) -> Spec {
    let quick = tier == "quick";
    let mut jobs = Vec::new();
    let cfg = Cfg { keymode: KeyMode::Collide { m: 2 }, ..Cfg::default() };
    let mut alpha = Vec::new();
    for k in [2u64, 4, 3] {
        alpha.push(ins(k, 1, 0));
        alpha.push(Op::Get { k });
        alpha.push(Op::Rem { k });
    }
    alpha.push(Op::Mut { k: 2 });
    alpha.push(Op::Mut { k: 4 });
    alpha.push(Op::Ttl { k: 2 });
    alpha.push(Op::Ttl { k: 4 });
    alpha.push(ins(4, 1, 1000));
    for s in sequences(&alpha, if quick { 4 } else { 5 }) {
        let mut ops = s.clone();
        ops.push(Op::Get { k: 2 });
        ops.push(Op::Get { k: 4 });
        jobs.push(job(single(&cfg, flavor, settled(&ops)), &[0], "c18"));
    }
    // unsettled histories on the colliding pair: buffered work for one key while the other is touched
    {
        let ua = [ins(2, 1, 0), ins(4, 1, 0), Op::Rem { k: 2 }, Op::Rem { k: 4 }, Op::Get { k: 2 }, Op::Get { k: 4 }, Op::Settle];
        for s in sequences(&ua, if quick { 4 } else { 5 }) {
            let mut ops = s.clone();
            ops.push(Op::Settle);
            ops.push(Op::Get { k: 2 });
            ops.push(Op::Get { k: 4 });
            jobs.push(job(single(&cfg, flavor, ops), &[1], "c18-unsettled"));
        }
    }
    // two clients on the colliding pair: one updates key 2 in place while the other removes it and
    // inserts key 4 (the processor applying Delete and New in between)
    for t1 in [vec![ins(2, 1, 0)], vec![ins(2, 1, 1000)], vec![Op::Pres { k: 2, c: 1 }], vec![Op::Mut { k: 2 }]] {
        for t2 in [vec![Op::Rem { k: 2 }, ins(4, 1, 0), Op::Wait], vec![Op::Rem { k: 2 }, ins(4, 1, 0)], vec![ins(4, 1, 0), Op::Rem { k: 2 }, Op::Wait, ins(4, 1, 0)]] {
            let mut p = conc(&cfg, flavor, &[ins(2, 1, 0)], vec![t1.clone(), t2.clone()]);
            p.post = vec![Op::Settle, Op::Get { k: 2 }, Op::Get { k: 4 }, Op::Ttl { k: 4 }];
            jobs.push(job(p, &[2], "c18-conc"));
        }
    }
    // the colliding pair with expiring entries: an entry whose TTL has run out but which has not
    // been swept yet still owns its slot and its conflict hash
    for ops in expiring_collide_histories(quick) {
        jobs.push(job(single(&cfg, flavor, settled(&ops)), &[0], "c18-expiring"));
    }
    // the owner of the slot carries the conflict hash 0 (what a key builder that provides no
    // conflict hash yields, and what TransparentKeyBuilder yields for every key), the other keys
    // of the slot a non-zero one: they still miss, are refused and remove nothing.  Index = k % 8,
    // conflict = k / 8: key 5 -> (5, 0), key 13 -> (5, 1), key 21 -> (5, 2).  The zero-conflict
    // key stays the owner throughout (a lookup WITH conflict hash 0 is documented to skip the check).
    {
        let zcfg = Cfg { keymode: KeyMode::CollideDiv { m: 8 }, ..Cfg::default() };
        let za = [ins(13, 1, 0), Op::Pres { k: 13, c: 1 }, Op::Rem { k: 13 }, Op::Get { k: 13 }, Op::Mut { k: 13 }, Op::Ttl { k: 13 }, Op::Mut { k: 21 }, Op::Get { k: 5 }, Op::Mut { k: 5 }, ins(5, 1, 0), ins(5, 1, 5000)];
        for s in sequences(&za, if quick { 3 } else { 4 }) {
            let mut ops = s.clone();
            ops.extend([Op::Get { k: 5 }, Op::Get { k: 13 }, Op::Ttl { k: 5 }]);
            let mut pr = single(&zcfg, flavor, settled(&ops));
            pr.setup = vec![ins(5, 1, 0)];
            jobs.push(job(pr, &[0], "c18-zero-conflict-owner"));
        }
    }
    Spec {
        id: "C18",
        jobs,
        oracle: o_c18,
        interesting: |p, t| {
            // both colliding keys were written
            let ks: std::collections::HashSet<u64> = t.recs.iter().filter(|r| ok_write(r)).filter_map(|r| r.op.key()).filter(|k| p.cfg.build_key(*k).0 == 0).collect();
            ks.len() > 1
        },
        rule: format!(
            "cache with a colliding key builder (index = k % 2, conflict = k + 1: keys 2 and 4 share index 0, key 3 has index 1): every settled history of depth {} over 14 symbols (I/G/R on 2, 4, 3; M and T on 2 and 4; I(4,1s)) followed by lookups of both colliding keys; plus settled histories over {{I(2,500ms), I(4), I(4,500ms), I(2), A(600ms), A(1s), G(2), G(4), M(2), T(2), R(2)}} (an expired, not yet swept entry still owns its slot); oracle: slot model (an operation on one key never returns, overwrites or removes the value of the other; deadlines tracked, an expired owner leaves the slot undetermined until something is observed) + value provenance; plus a slot whose owner carries the conflict hash 0 (index = k % 8, conflict = k / 8; keys 5, 13, 21) with every settled history of depth 3/4 over I/P/R/G/M/T on the non-zero-conflict keys and G/M/I on the owner; non-trivial = both colliding keys were written. Key-builder determinism / identity / injectivity is enumerated separately (all u8/i8/u16/i16/bool values, boundary sets for wider types, 4000 strings in String/&str form)",
            if quick { 4 } else { 5 }
        ),
        assumptions: all_std(),
    }
}

pub fn oracle_for(id: &str) -> Option<OracleFn> {
    Some(match id {
        "C01" => o_c01,
        "C02" => o_c02,
        "C03" => o_c03,
        "C04" => o_c04,
        "C05" => o_c05,
        "C06" => o_c06,
        "C08" => o_c08,
        "C09" => o_c09_all,
        "C10" => o_c10,
        "C11" => o_c11,
        "C12" => o_c12,
        "C15" => o_c15,
        "C16" => o_c16,
        "C17" => o_c17,
        "C20" => o_c20,
        "C18" => o_c18,
        _ => return None,
    })
}

// ------------------------------------------------------------------------------------------------
// builder errors (C20)

pub fn expected_build_error(cfg: &Cfg) -> Option<&'static str> {
    if cfg.num_counters == 0 {
        Some("InvalidNumCounters")
    } else if cfg.max_cost == 0 {
        Some("InvalidMaxCost")
    } else if cfg.buffer_size == 0 {
        Some("InvalidBufferSize")
    } else {
        None
    }
}

pub fn o_build_error(p: &Program, err: &str) -> Vec<Finding> {
    match expected_build_error(&p.cfg) {
        Some(e) if err == e => vec![],
        Some(e) => vec![("wrong-builder-error".to_string(), format!("configuration {:?} was rejected with {} instead of {}", p.cfg, err, e))],
        None => vec![("config-rejected".to_string(), format!("the builder rejected an acceptable configuration with {} ({:?})", err, p.cfg))],
    }
}

// ------------------------------------------------------------------------------------------------
// C20

fn o_c20(p: &Program, t: &Trace) -> Vec<Finding> {
    let mut out = Vec::new();
    if let Some(e) = expected_build_error(&p.cfg) {
        out.push(("invalid-config-accepted".to_string(), format!("the builder accepted a configuration that must be rejected with {}", e)));
        return out;
    }
    let fin = match t.snaps.iter().rev().find(|s| s.quiescent) {
        Some(s) => s,
        None => return out,
    };
    if fin.workers.1 != 0 {
        out.push(("worker-died".to_string(), format!("{} of {} background workers have terminated although the cache was never closed", fin.workers.1, fin.workers.0)));
    }
    // the final part of the workload: S; W; I(7); S
    let mut recs: Vec<&Rec> = t.recs.iter().collect();
    recs.sort_by_key(|r| r.call);
    if let Some(w) = recs.iter().rev().find(|r| r.op == Op::Wait) {
        if w.res != Res::Unit {
            out.push(("wait-failed-on-idle-cache".to_string(), format!("wait() on a quiescent cache returned {:?}", w.res)));
        }
    }
    if let Some(i) = recs.iter().rev().find(|r| matches!(r.op, Op::Ins { k: 7, .. })) {
        if i.res != Res::Bool(true) {
            out.push(("insert-refused-on-idle-cache".to_string(), format!("an insert on a quiescent cache returned {:?}", i.res)));
        } else {
            let v = i.wrote.unwrap();
            let resident = fin.entries.iter().any(|e| e.value == v);
            let handed = t.ledger.iter().any(|e| e.val == Some(v));
            if !resident && !handed {
                out.push(("fresh-insert-not-processed".to_string(), format!("{:?} was accepted on a quiescent cache but was neither applied nor handed to a callback (dead worker?)", v)));
            }
        }
    }
    out.extend(o_agree(p, t));
    out.extend(o_policy(p, t));
    out
}

pub fn c20(tier: &str, flavor: Flavor) -> Spec {
    let quick = tier == "quick";
    let mut jobs = Vec::new();
    let ncs: Vec<usize> = if quick { (1..=8).chain(63..=70).collect() } else { (1..=70).collect() };
    let workload = vec![
        ins(1, 1, 0),
        ins(2, 0, 0),
        ins(3, 1000, 0),
        Op::Get { k: 1 },
        Op::Get { k: 9 },
        Op::Settle,
        Op::Mut { k: 1 },
        ins(1, 2, 0),
        Op::Rem { k: 2 },
        ins(4, 1, 500),
        ins(5, 1, 0),
        ins(6, 1, 0),
        Op::Get { k: 4 },
        Op::Ttl { k: 4 },
        Op::Settle,
        // a ValueRef obtained while the entry was live, asked for its TTL after the deadline
        Op::GetHold { k: 4, ms: 600 },
        Op::Ttl { k: 4 },
        Op::Adv { ms: 900 },
        Op::Settle,
        Op::Adv { ms: 2000 },
        Op::Settle,
        Op::Get { k: 4 },
        Op::Pres { k: 5, c: 3 },
        Op::MaxCost { m: 3 },
        ins(8, 1, 0),
        Op::Settle,
        Op::Clear,
        ins(5, 1, 0),
        Op::Settle,
        Op::Wait,
        ins(7, 1, 0),
        Op::Settle,
    ];
    for &nc in &ncs {
        for max_cost in [-1i64, 1, 5, 100] {
            for buffer_size in [1usize, 2, 8] {
                for buffer_items in [0usize, 1, 2, 64] {
                    for metrics in [false, true] {
                        for ignore in [true, false] {
                            for cleanup_ms in [1u64, 500, 2000] {
                                if quick && (nc > 8 && nc < 63) {
                                    continue;
                                }
                                let cfg = Cfg {
                                    num_counters: nc,
                                    max_cost,
                                    buffer_size,
                                    buffer_items,
                                    metrics,
                                    ignore_internal_cost: ignore,
                                    cleanup_ms,
                                    ..Cfg::default()
                                };
                                jobs.push(job(single(&cfg, flavor, workload.clone()), &[0], "c20"));
                            }
                        }
                    }
                }
            }
        }
    }
    // lookups from two clients through their own handles (they share the lookup ring)
    for buffer_items in [0usize, 1, 2] {
        let cfg = Cfg { buffer_items, ..Cfg::default() };
        let a = vec![Op::Get { k: 1 }, Op::Get { k: 2 }, Op::Mut { k: 1 }];
        let b = vec![Op::Get { k: 1 }, Op::Get { k: 3 }];
        let mut p = conc(&cfg, flavor, &[ins(1, 1, 0)], vec![a, b]);
        p.post = vec![Op::Settle, Op::Wait, ins(7, 1, 0), Op::Settle];
        jobs.push(job(p, &[2], "c20-two-clients"));
    }
    // residents charged exactly zero among the eviction candidates (cost 0, Coster 0, internal cost
    // ignored): every admission still terminates
    for max_cost in [1i64, 10] {
        for buffer_items in [0usize, 1] {
            let cfg = Cfg { max_cost, buffer_items, coster_base: 0, coster_mod: 0, ignore_internal_cost: true, ..Cfg::default() };
            let wl = vec![ins(1, 0, 0), ins(2, max_cost, 0), Op::Settle, Op::Get { k: 1 }, Op::Get { k: 2 }, Op::Get { k: 2 }, Op::Get { k: 3 }, Op::Get { k: 3 }, Op::Get { k: 3 }, Op::Settle, ins(3, max_cost, 0), Op::Settle, ins(4, 0, 0), ins(5, max_cost, 0), Op::Settle, Op::Wait, ins(7, 1, 0), Op::Settle];
            jobs.push(job(single(&cfg, flavor, wl), &[0], "c20-zero-charge-residents"));
        }
    }
    // "any positive cleanup interval": intervals below one millisecond down to 1 ns
    // (sync flavour only: async-io's interval fires once per period without skipping, so a jump of
    // the virtual clock by seconds owes a nanosecond interval billions of ticks - a spin, in virtual
    // as in real time, which the step cap of the explorer cuts off)
    for cleanup_ns in [1u64, 1_000, 200_000, 999_999] {
        if flavor == Flavor::Async {
            continue;
        }
        for &nc in &[1usize, 64] {
            for max_cost in [1i64, 100] {
                for buffer_size in [1usize, 8] {
                    for metrics in [false, true] {
                        let cfg = Cfg { num_counters: nc, max_cost, buffer_size, buffer_items: 1, metrics, cleanup_ns, ..Cfg::default() };
                        jobs.push(job(single(&cfg, flavor, workload.clone()), &[0], "c20-submillisecond-cleanup"));
                    }
                }
            }
        }
    }
    // operations on keys sharing a shard (1 and 257) while work for the neighbour is still buffered:
    // every call must complete (no self-deadlock on the shard lock, whatever the processor does)
    {
        let wl2 = vec![
            ins(1, 1, 5000),
            Op::Settle,
            ins(257, 1, 0),
            Op::Ttl { k: 1 },
            Op::Get { k: 1 },
            Op::Mut { k: 1 },
            ins(1, 1, 0),
            Op::Ttl { k: 257 },
            Op::Rem { k: 257 },
            Op::Ttl { k: 1 },
            Op::Settle,
            Op::Wait,
            ins(7, 1, 0),
            Op::Settle,
        ];
        for buffer_size in [1usize, 8] {
            for max_cost in [1i64, 100] {
                let cfg = Cfg { max_cost, buffer_size, ..Cfg::default() };
                jobs.push(job(single(&cfg, flavor, wl2.clone()), &[2], "c20-same-shard"));
            }
        }
    }
    // a TTL given to a resident key (filed in the expiry index under the shard lock, on the client's
    // thread) or the removal of a TTL entry, racing clear() from another client: every
    // call completes and the cache keeps working
    for (buffer_size, buffer_items) in [(1usize, 0usize), (8, 64)] {
        let cfg = Cfg { buffer_size, buffer_items, ..Cfg::default() };
        for a in [vec![ins(2, 1, 1000)], vec![Op::Rem { k: 1 }], vec![ins(1, 1, 0), ins(2, 1, 500)]] {
            for b in [vec![Op::Clear], vec![Op::Clear, ins(1, 1, 300)]] {
                let mut p = conc(&cfg, flavor, &[ins(1, 1, 1000), ins(2, 1, 0)], vec![a.clone(), b.clone()]);
                p.post = vec![Op::Settle, Op::Wait, ins(7, 1, 0), Op::Settle];
                jobs.push(job(p, &[2], "c20-ttl-refresh-vs-clear"));
            }
        }
    }
    // a client that holds a get_mut guard inserts other keys: the processor needs the guarded shard
    // (to evict its resident) and stalls, the one- or two-slot insert buffer fills up - every insert
    // still returns (accepted or dropped), and after the guard is gone the cache works
    for buffer_size in [1usize, 2] {
        for n in [3u64, 5] {
            let cfg = Cfg { max_cost: 1, buffer_size, ..Cfg::default() };
            let mut p = conc(&cfg, flavor, &[ins(1, 1, 0)], vec![vec![Op::MutHoldIns { k: 1, n }]]);
            p.post = vec![Op::Settle, Op::Wait, ins(7, 1, 0), Op::Settle];
            // (first in the queue: a change that makes the big product slower must not push this
            // small program beyond the time cap)
            jobs.insert(0, job(p, &[2], "c20-writes-under-a-guard"));
        }
    }
    // zero parameters are rejected, in whatever order the builder was fed
    for order in [0u8, 1, 2] {
        for (nc, mc, bs) in [(0usize, 10i64, 8usize), (10, 0, 8), (10, 10, 0)] {
            for buffer_items in [0usize, 1, 64] {
                let cfg = Cfg { num_counters: nc, max_cost: mc, buffer_size: bs, buffer_items, builder_order: order, ..Cfg::default() };
                jobs.push(job(single(&cfg, flavor, vec![ins(1, 1, 0), Op::Settle]), &[0], "c20-zero"));
            }
        }
    }
    // the order of the builder calls does not matter: the other two orders (flags after the
    // type-changing setters, interleaved) on the corners of the product
    for order in [1u8, 2] {
        for &nc in &[1usize, 64] {
            for max_cost in [1i64, 100] {
                for (buffer_size, buffer_items) in [(1usize, 0usize), (1, 64), (8, 0), (8, 1), (2, 2)] {
                    for (metrics, ignore) in [(false, true), (true, false), (true, true), (false, false)] {
                        for cleanup_ms in [1u64, 2000] {
                            let cfg = Cfg { num_counters: nc, max_cost, buffer_size, buffer_items, metrics, ignore_internal_cost: ignore, cleanup_ms, builder_order: order, ..Cfg::default() };
                            jobs.push(job(single(&cfg, flavor, workload.clone()), &[0], "c20-builder-order"));
                        }
                    }
                }
            }
        }
    }
    Spec {
        id: "C20",
        jobs,
        oracle: o_c20,
        interesting: |_, t| t.ledger.iter().any(|e| e.kind != CbKind::Exit),
        rule: format!(
            "full product of num_counters {{{}}} x max_cost {{-1,1,5,100}} x buffer_size {{1,2,8}} x buffer_items {{0,1,2,64}} x metrics x ignore_internal_cost x cleanup {{1 ms, 0.5 s, 2 s}}, plus cleanup intervals {{1 ns, 1 us, 200 us, 999999 ns}} x num_counters {{1,64}} x max_cost {{1,100}} x buffer_size {{1,8}} x metrics, each running one fixed 33-operation workload (inserts incl. coster / oversize cost, lookups, get_mut, a ValueRef held past the expiry of its entry, update, remove, TTL expiry with ticks, insert_if_present, update_max_cost, evictions, clear, wait, a final insert) under every scheduling/select choice at preemption bound 0; oracle: no panic in any task, no worker terminated, wait() Ok and the final insert processed on the idle cache, store/policy agreement, policy invariants; zero num_counters / max_cost / buffer_size rejected with the matching error under each of three builder call orders (flags first = the default of every family, flags last, interleaved), the two other orders also on the corners of the product; non-trivial = an evict / reject callback fired",
            if quick { "1..8, 63..70" } else { "1..70" }
        ),
        assumptions: all_std(),
    }
}

// ------------------------------------------------------------------------------------------------
// C15

/// Settled single-client histories with clear() in them.  clear() wipes the estimator and the
/// counters, it is not one of the two events that lose lookups: the lookups sitting in a partly
/// filled ring when clear() is called are flushed with the batch they belong to, which is
/// accounted (after the clear) as kept, and they count towards their keys' estimates.
fn o_c15_clear(p: &Program, t: &Trace) -> Vec<Finding> {
    let mut out = Vec::new();
    let fin = match t.snaps.iter().rev().find(|s| s.quiescent) {
        Some(s) => s,
        None => return out,
    };
    let m = match &fin.metrics {
        Some(m) => m,
        None => return out,
    };
    let size = p.cfg.buffer_items.max(1);
    let mut looks: Vec<&Rec> = t.recs.iter().filter(|r| matches!(r.op, Op::Get { .. } | Op::Mut { .. })).collect();
    looks.sort_by_key(|r| r.call);
    let c = match t.recs.iter().filter(|r| r.op == Op::Clear && r.res == Res::Unit).map(|r| r.call).max() {
        Some(c) => c,
        None => return out,
    };
    let pre = looks.iter().filter(|r| r.call < c).count();
    let (from, to) = ((pre / size) * size, (looks.len() / size) * size);
    if (m.gets_kept + m.gets_dropped) as usize != to - from || m.gets_dropped != 0 {
        out.push(("gets-accounting".to_string(), format!("buffer_items {}: {} lookups before the last clear(), {} after it: the batches flushed since hold {} lookups but gets_kept {} + gets_dropped {}", p.cfg.buffer_items, pre, looks.len() - pre, to - from, m.gets_kept, m.gets_dropped)));
        return out;
    }
    let mut per: BTreeMap<u64, usize> = BTreeMap::new();
    for r in &looks[from..to] {
        *per.entry(p.cfg.build_key(r.op.key().unwrap()).0).or_insert(0) += 1;
    }
    for (idx, n) in per {
        let est = fin.estimates.iter().find(|e| e.0 == idx).map(|e| e.1).unwrap_or(-1);
        if est < n.min(16) as i64 {
            out.push(("lookups-not-recorded".to_string(), format!("key {} was looked up {} times in the batches flushed since the last clear() but its estimate is {}", idx, n, est)));
        }
    }
    out
}

fn o_c15(p: &Program, t: &Trace) -> Vec<Finding> {
    let mut out = Vec::new();
    if p.threads.iter().flatten().any(|o| *o == Op::Clear) {
        return if p.threads.len() == 1 && is_settled(p) { o_c15_clear(p, t) } else { out };
    }
    let fin = match t.snaps.iter().rev().find(|s| s.quiescent) {
        Some(s) => s,
        None => return out,
    };
    let m = match &fin.metrics {
        Some(m) => m,
        None => return out,
    };
    let capa = p.cfg.buffer_items;
    let mut recs: Vec<&Rec> = t.recs.iter().filter(|r| matches!(r.op, Op::Get { .. } | Op::Mut { .. })).collect();
    recs.sort_by_key(|r| r.call);
    // batches as the ring buffer cuts them: a flush after every `capa` lookups (every lookup when capa is 0)
    let size = capa.max(1);
    let flushed = (recs.len() / size) * size;
    if (m.gets_kept + m.gets_dropped) as usize != flushed {
        out.push((
            "gets-accounting".to_string(),
            format!("{} lookups with buffer_items {}: {} lookups were flushed in batches but gets_kept {} + gets_dropped {} = {}", recs.len(), capa, flushed, m.gets_kept, m.gets_dropped, m.gets_kept + m.gets_dropped),
        ));
        return out;
    }
    if m.gets_kept as usize % size != 0 || m.gets_dropped as usize % size != 0 {
        out.push(("gets-accounting".to_string(), format!("kept {} / dropped {} are not whole batches of {}", m.gets_kept, m.gets_dropped, size)));
    }
    // a batch is lost only when the policy queue (3 batches) is full: with a settle after every
    // lookup (prompt draining) nothing may be dropped
    let prompt = is_settled(p);
    if (prompt || p.flavor == Flavor::Async) && m.gets_dropped != 0 {
        out.push(("gets-dropped-without-pressure".to_string(), format!("{} lookups dropped although the policy worker drained its queue after every lookup", m.gets_dropped)));
    }
    // between two settles at most the batches beyond 3 undelivered ones can be dropped
    if p.threads.len() == 1 {
        let mut max_drop = 0usize;
        let mut since = 0usize; // lookups since the last settle
        let mut pending = 0usize; // lookups in the ring at the last settle
        let mut all: Vec<&Rec> = t.recs.iter().collect();
        all.sort_by_key(|r| r.call);
        for r in all {
            match r.op {
                Op::Get { .. } | Op::Mut { .. } => since += 1,
                Op::Settle => {
                    let batches = (pending + since) / size;
                    max_drop += batches.saturating_sub(3) * size;
                    pending = (pending + since) % size;
                    since = 0;
                }
                _ => {}
            }
        }
        let batches = (pending + since) / size;
        max_drop += batches.saturating_sub(3) * size;
        if m.gets_dropped as usize > max_drop {
            out.push(("gets-dropped-without-pressure".to_string(), format!("gets_dropped {} but the queue of 3 batches can have overflowed by at most {} lookups", m.gets_dropped, max_drop)));
        }
    }
    // once processed, the estimate reflects the kept lookups
    if m.gets_dropped == 0 {
        // which lookups are still sitting in the ring (at most `leftover`, any keys) is not observable
        let leftover = recs.len() - flushed;
        let mut per: std::collections::BTreeMap<u64, usize> = Default::default();
        for r in recs.iter() {
            *per.entry(p.cfg.build_key(r.op.key().unwrap()).0).or_insert(0) += 1;
        }
        for (idx, n) in per {
            let n = n.saturating_sub(leftover);
            let est = fin.estimates.iter().find(|e| e.0 == idx).map(|e| e.1).unwrap_or(-1);
            if est < n.min(16) as i64 {
                out.push(("lookups-not-recorded".to_string(), format!("key {} was looked up at least {} times in flushed, kept batches but its estimate is {}", idx, n, est)));
            }
        }
    }
    out
}

pub fn c15(tier: &str, flavor: Flavor) -> Spec {
    let quick = tier == "quick";
    let mut jobs = Vec::new();
    let alpha = [Op::Get { k: 1 }, Op::Get { k: 2 }, Op::Mut { k: 1 }, Op::Mut { k: 2 }];
    let lens: Vec<usize> = if quick { vec![5] } else { vec![6] };
    for capa in [0usize, 1, 2, 3] {
        let cfg = Cfg { buffer_items: capa, metrics: true, num_counters: 1000, ..Cfg::default() };
        for &l in &lens {
            for s in sequences(&alpha, l) {
                // prompt draining
                let mut p = single(&cfg, flavor, settled(&s));
                p.setup = vec![ins(1, 1, 0)];
                jobs.push(job(p, &[0], "c15-settled"));
                // the policy worker lags behind: its bounded queue may fill
                let mut p = single(&cfg, flavor, s.clone());
                p.setup = vec![ins(1, 1, 0)];
                jobs.push(job(p, &[2], "c15-lagging"));
            }
        }
        // long bursts: more than 3 undelivered batches
        for l in [4 * capa.max(1) + 1, 6 * capa.max(1)] {
            let s: Vec<Op> = (0..l).map(|i| if i % 2 == 0 { Op::Get { k: 1 } } else { Op::Get { k: 2 } }).collect();
            let mut p = single(&cfg, flavor, s);
            p.setup = vec![ins(1, 1, 0)];
            jobs.push(job(p, &[2], "c15-burst"));
        }
    }
    // two clients sharing the ring
    let cfg = Cfg { buffer_items: 2, metrics: true, num_counters: 1000, ..Cfg::default() };
    for a in bodies(&[Op::Get { k: 1 }, Op::Get { k: 2 }], 2) {
        for b in bodies(&[Op::Get { k: 1 }, Op::Get { k: 2 }], 2) {
            jobs.push(job(conc(&cfg, flavor, &[ins(1, 1, 0)], vec![a.clone(), b.clone()]), &[2], "c15-conc"));
        }
    }
    // two clients flushing one-lookup batches while the worker lags: the queue fills between one
    // client's fullness test and its send
    for capa in [0usize, 1] {
        let cfg = Cfg { buffer_items: capa, metrics: true, num_counters: 1000, ..Cfg::default() };
        for (a, b) in [(2usize, 2usize), (3, 1), (2, 3)] {
            let ta: Vec<Op> = (0..a).map(|i| Op::Get { k: 1 + (i as u64 % 2) }).collect();
            let tb: Vec<Op> = (0..b).map(|i| Op::Get { k: 2 - (i as u64 % 2) }).collect();
            jobs.push(job(conc(&cfg, flavor, &[ins(1, 1, 0)], vec![ta, tb]), &[2], "c15-two-flushers"));
        }
    }
    // lookups flushed while the processor (admissions, updates, removes) or another client
    // (update_max_cost) is inside the policy: a batch that was accepted is applied all the same
    for capa in [0usize, 1] {
        let cfg = Cfg { buffer_items: capa, metrics: true, num_counters: 1000, ..Cfg::default() };
        for a in [vec![Op::Get { k: 1 }, Op::Get { k: 1 }], vec![Op::Get { k: 1 }, Op::Get { k: 2 }, Op::Get { k: 1 }]] {
            for b in [vec![ins(3, 1, 0)], vec![ins(1, 2, 0)], vec![Op::Rem { k: 1 }], vec![Op::MaxCost { m: 50 }], vec![ins(3, 1, 0), ins(4, 1, 0)]] {
                jobs.push(job(conc(&cfg, flavor, &[ins(1, 1, 0)], vec![a.clone(), b.clone()]), &[2], "c15-policy-busy"));
            }
        }
    }
    // clear() between the lookups: the lookups of a partly filled ring are not lost by it
    for capa in [2usize, 3] {
        let cfg = Cfg { buffer_items: capa, metrics: true, num_counters: 1000, ..Cfg::default() };
        let xa = [Op::Get { k: 1 }, Op::Get { k: 2 }, Op::Mut { k: 1 }, Op::Clear, ins(1, 1, 0)];
        for s in sequences(&xa, if quick { 5 } else { 6 }) {
            if !s.contains(&Op::Clear) || !s.iter().any(is_lookup_op) {
                continue;
            }
            let mut pr = single(&cfg, flavor, settled(&s));
            pr.setup = vec![ins(1, 1, 0)];
            jobs.push(job(pr, &[0], "c15-clear"));
        }
    }
    Spec {
        id: "C15",
        jobs,
        oracle: o_c15,
        interesting: |_, t| t.snaps.last().and_then(|s| s.metrics.as_ref()).map(|m| m.gets_kept > 0).unwrap_or(false),
        rule: format!(
            "buffer_items in 0..=3, num_counters 1000, metrics on, key 1 resident / key 2 absent: every lookup sequence of length {} over {{G(1), G(2), M(1), M(2)}} (hits and misses through get and get_mut) (a) with a settle after every lookup, bound 0 and (b) unsettled with the policy worker as a scheduled task at preemption bound 2 (the worker is interrupted between taking a batch and applying it); bursts of 4*b+1 and 6*b lookups (overflow of the 3-batch queue) at bound 2; two clients x <= 2 lookups sharing the ring at bound 2; lookups of one client racing admissions / updates / removes / update_max_cost of another (the policy lock is busy when the worker gets the batch) at bound 2. Oracle at the final quiescent point: gets_kept + gets_dropped == lookups flushed in whole batches, drops only beyond 3 undelivered batches and never with prompt draining, estimate(k) >= min(16, lookups of k in kept batches); plus settled histories of depth 5/6 over {{G(1), G(2), M(1), X, I(1)}} with buffer_items 2 and 3: clear() is not one of the two events that lose lookups, the batches flushed after it (including the lookups that sat in the ring when it was called) are kept and counted; non-trivial = a batch was kept",
            lens[0]
        ),
        assumptions: all_std(),
    }
}

// ------------------------------------------------------------------------------------------------
// C11 differential: after `prefix; clear()` the cache behaves like a fresh one.
//
// The prefix (and the clear) run as the deterministic setup, the suffix as client 0, so the suffix
// has the same operation indices / value ids in both programs of a pair; `engine::client0_hash`
// compares what client 0 observes (results, callbacks for its values, final entries, charges,
// metrics).  Prefixes do not advance the clock, so both caches are at the same virtual time.

pub fn c11_diff_pairs(tier: &str, flavor: Flavor) -> (Vec<Job>, Vec<String>) {
    let quick = tier == "quick";
    let mut jobs = Vec::new();
    let mut names = Vec::new();
    let palpha = [Op::Get { k: 9 }, Op::Get { k: 1 }, ins(9, 1, 0), ins(1, 1, 1000), ins(2, 1, 0), Op::Rem { k: 9 }, Op::Mut { k: 1 }];
    let mut prefixes = bodies(&palpha, if quick { 2 } else { 3 });
    // a key that was hot before the clear
    prefixes.push(vec![Op::Get { k: 9 }; 8]);
    prefixes.push(vec![ins(9, 1, 0), Op::Get { k: 9 }, Op::Get { k: 9 }, Op::Get { k: 9 }, Op::Get { k: 9 }, Op::Get { k: 9 }, Op::Get { k: 9 }]);
    let suffixes: Vec<Vec<Op>> = vec![
        // fill the cache, warm the residents, then a newcomer has to win the admission contest
        vec![ins(1, 1, 0), ins(2, 1, 0), Op::Get { k: 1 }, Op::Get { k: 2 }, Op::Get { k: 1 }, Op::Get { k: 2 }, ins(9, 1, 0), Op::Get { k: 9 }, Op::Get { k: 1 }, Op::Get { k: 2 }],
        vec![ins(9, 1, 0), ins(2, 1, 0), Op::Get { k: 2 }, Op::Get { k: 2 }, ins(1, 1, 0), Op::Get { k: 1 }, Op::Get { k: 9 }],
        // re-used keys with other TTLs and idle time
        vec![ins(1, 1, 0), ins(9, 1, 2500), Op::Adv { ms: 1500 }, Op::Get { k: 1 }, Op::Get { k: 9 }, Op::Adv { ms: 2000 }, Op::Get { k: 1 }, Op::Get { k: 9 }, Op::Ttl { k: 1 }],
        vec![Op::Get { k: 1 }, Op::Get { k: 9 }, Op::Pres { k: 1, c: 1 }, Op::Rem { k: 9 }],
        // updates of a resident key (cost up, cost down, a TTL given and taken away), a remove
        vec![ins(1, 1, 0), ins(1, 2, 0), Op::Pres { k: 1, c: 1 }, ins(9, 1, 0), ins(1, 1, 500), Op::Get { k: 1 }, ins(1, 1, 0), Op::Rem { k: 9 }, Op::Adv { ms: 2000 }, Op::Get { k: 1 }],
    ];
    for metrics in [true] {
        let cfg = Cfg { max_cost: 2, buffer_items: 1, metrics, ..Cfg::default() };
        for pre in &prefixes {
            for suf in &suffixes {
                let mut with = single(&cfg, flavor, settled(suf));
                with.setup = pre.clone();
                with.setup.push(Op::Clear);
                let fresh = single(&cfg, flavor, settled(suf));
                names.push(format!("[{};X] {}", ops_short(pre), ops_short(suf)));
                jobs.push(job(with, &[0], "c11-diff-after-clear"));
                jobs.push(job(fresh, &[0], "c11-diff-fresh"));
            }
            // the clear issued by client 0 itself, immediately followed by a short suffix (no
            // quiescence in between): what is issued after clear() returned must be treated as on
            // a fresh cache under every schedule
            if pre.len() <= 2 {
                for suf in [vec![ins(7, 1, 0), Op::Settle, Op::Get { k: 7 }], vec![ins(1, 1, 0), ins(7, 1, 0), Op::Wait, Op::Get { k: 1 }, Op::Get { k: 7 }, Op::Settle]] {
                    let mut ops = vec![Op::Clear];
                    ops.extend(suf.iter().copied());
                    let mut with = single(&cfg, flavor, ops.clone());
                    with.setup = pre.clone();
                    // the reference: the same suffix on a cache that was never used (a no-op
                    // stands where the clear was, so that value identities coincide)
                    ops[0] = Op::Settle;
                    let fresh = single(&cfg, flavor, ops);
                    names.push(format!("[{}] X;{}", ops_short(pre), ops_short(&suf)));
                    jobs.push(job(with, &[2], "c11-diff-clear-then-suffix"));
                    jobs.push(job(fresh, &[2], "c11-diff-fresh"));
                }
            }
        }
    }
    (jobs, names)
}
