//! Shim self-checks run by `./check setup` (not part of any verdict): scripted scenarios whose
//! expected results were read off the real crates (crossbeam-channel 0.5.17, parking_lot 0.12,
//! wg 0.9.2, async-io 2.6, async-channel 2.5); see DESIGN.md appendix A.

use std::sync::{Arc, Mutex};
use stretto_verif_rt as rt;

fn scenario(name: &str, bound: usize, expect_outcomes: &[&str], body: fn() -> String) -> bool {
    let seen = Arc::new(Mutex::new(std::collections::BTreeSet::new()));
    let s2 = seen.clone();
    let out = rt::explore(
        rt::ExploreCfg { bound, ..Default::default() },
        Arc::new(move || {
            let r = body();
            s2.lock().unwrap().insert(r);
        }),
    );
    let got: Vec<String> = seen.lock().unwrap().iter().cloned().collect();
    let mut exp: Vec<String> = expect_outcomes.iter().map(|s| s.to_string()).collect();
    exp.sort();
    let ok = out.violations.is_empty() && out.complete && got == exp;
    println!(
        "conformance {:<34} bound {} executions {:>6} outcomes {:?} {}",
        name,
        bound,
        out.executions,
        got,
        if ok { "ok" } else { "MISMATCH" }
    );
    if !ok {
        println!("   expected {:?}; violations {:?}", exp, out.violations.iter().map(|v| &v.msg).collect::<Vec<_>>());
    }
    ok
}

pub fn run() -> i32 {
    use rt::chan::{bounded, tick, unbounded, TryRecvError, TrySendError};
    let mut ok = true;
    // capacity / FIFO / disconnect table
    ok &= scenario("chan: capacity, fifo, disconnect", 0, &["ok"], || {
        let (tx, rx) = bounded::<u32>(2);
        assert!(tx.try_send(1).is_ok() && tx.try_send(2).is_ok());
        assert!(matches!(tx.try_send(3), Err(TrySendError::Full(3))));
        assert_eq!(rx.try_recv(), Ok(1));
        drop(tx);
        assert_eq!(rx.try_recv(), Ok(2));
        assert_eq!(rx.try_recv(), Err(TryRecvError::Disconnected));
        let (tx, rx) = unbounded::<u32>();
        tx.send(7).unwrap();
        drop(rx);
        assert!(tx.send(8).is_err());
        "ok".into()
    });
    // select with two ready arms: both outcomes
    ok &= scenario("select: any ready arm", 0, &["a", "b"], || {
        let (ta, ra) = unbounded::<u32>();
        let (tb, rb) = unbounded::<u32>();
        ta.send(1).unwrap();
        let _ = tb.send(2);
        rt::select! {
            recv(ra) -> _ => "a".to_string(),
            recv(rb) -> _ => "b".to_string(),
        }
    });
    // a blocked select is committed to the arm made ready first
    ok &= scenario("select: commit on wake", 2, &["a-first"], || {
        let (ta, ra) = unbounded::<u32>();
        let (tb, rb) = unbounded::<u32>();
        let h = rt::thread::spawn(move || {
            rt::select! {
                recv(ra) -> _ => "a-first".to_string(),
                recv(rb) -> _ => "b-first".to_string(),
            }
        });
        rt::settle(); // receiver is blocked in select now
        ta.send(1).unwrap();
        let _ = tb.send(2);
        h.join().unwrap()
    });
    // rendezvous: send returns at once when a receiver is already blocked, else blocks
    ok &= scenario("zero-capacity rendezvous", 2, &["got 5"], || {
        let (tx, rx) = bounded::<u32>(0);
        let h = rt::thread::spawn(move || format!("got {}", rx.recv().unwrap()));
        tx.send(5).unwrap();
        h.join().unwrap()
    });
    // select with default never blocks
    ok &= scenario("select: default", 0, &["default"], || {
        let (_tx, rx) = unbounded::<u32>();
        rt::select! {
            recv(rx) -> _ => "msg".to_string(),
            default => "default".to_string(),
        }
    });
    // tick cadence: first delivery at creation + d, next at receipt + d
    ok &= scenario("tick cadence", 0, &["ok"], || {
        let t = tick(std::time::Duration::from_millis(100));
        assert!(t.try_recv().is_err());
        rt::advance(std::time::Duration::from_millis(100));
        assert!(t.try_recv().is_ok());
        assert!(t.try_recv().is_err());
        rt::advance(std::time::Duration::from_millis(250));
        assert!(t.try_recv().is_ok());
        assert!(t.try_recv().is_err()); // next = receipt + 100ms, not a burst of missed ticks
        rt::advance(std::time::Duration::from_millis(99));
        assert!(t.try_recv().is_err());
        rt::advance(std::time::Duration::from_millis(1));
        assert!(t.try_recv().is_ok());
        "ok".into()
    });
    // RwLock: a waiting writer blocks new readers (second read of the same task deadlocks)
    ok &= scenario("rwlock: writer preference", 2, &["r1 w r2", "r1 r2 w"], || {
        let l = Arc::new(rt::sync::RwLock::new(Vec::<&'static str>::new()));
        let order = Arc::new(Mutex::new(Vec::new()));
        let g = l.read();
        order.lock().unwrap().push("r1");
        let (l2, o2) = (l.clone(), order.clone());
        let w = rt::thread::spawn(move || {
            let _g = l2.write();
            o2.lock().unwrap().push("w");
        });
        let (l3, o3) = (l.clone(), order.clone());
        let r = rt::thread::spawn(move || {
            let _g = l3.read();
            o3.lock().unwrap().push("r2");
        });
        rt::settle();
        drop(g);
        w.join().unwrap();
        r.join().unwrap();
        let v = order.lock().unwrap().join(" ");
        v
    });
    // WaitGroup: no Drop side effect
    ok &= scenario("waitgroup: add/done/wait", 2, &["ok"], || {
        let wg = rt::wg::WaitGroup::new();
        let w2 = wg.add(1);
        let h = rt::thread::spawn(move || {
            w2.done();
        });
        wg.wait();
        h.join().unwrap();
        assert_eq!(wg.waitings(), 0);
        "ok".into()
    });
    if ok {
        println!("conformance: all scenarios ok");
        0
    } else {
        2
    }
}
