//! Oracles over a recorded `Trace`.  Each returns findings `(class, message)`; the class is stable
//! (it names the clause that failed) and is what known findings are matched on.
//!
//! Discipline: an oracle never demands more than the property statement (DESIGN §7.4); every
//! deliberate slack is commented where it is applied.

use crate::engine::Finding;
use crate::model::*;
use std::collections::{BTreeMap, HashMap, HashSet};

fn f(class: &str, msg: String) -> Finding {
    (class.to_string(), msg)
}

pub fn ok_write(r: &Rec) -> bool {
    match (&r.op, &r.res) {
        (Op::Ins { .. }, Res::Bool(true)) | (Op::Pres { .. }, Res::Bool(true)) => true,
        (Op::Mut { .. }, Res::Val(Some(_))) => true,
        _ => false,
    }
}
pub fn is_lookup(r: &Rec) -> bool {
    is_lookup_op(&r.op)
}
pub fn is_lookup_op(o: &Op) -> bool {
    matches!(o, Op::Get { .. } | Op::Mut { .. } | Op::GetHold { .. } | Op::GetYield { .. } | Op::GetMaxCost { .. })
}
pub fn any_err(t: &Trace) -> bool {
    t.recs.iter().any(|r| matches!(r.res, Res::Err(_)))
}
fn sorted_recs(t: &Trace) -> Vec<&Rec> {
    let mut v: Vec<&Rec> = t.recs.iter().collect();
    v.sort_by_key(|r| r.call);
    v
}
pub fn internal(p: &Program) -> i64 {
    if p.cfg.ignore_internal_cost {
        0
    } else {
        stretto::verif::item_size::<Val>() as i64
    }
}
/// the cost the policy should charge for value `v` inserted with explicit cost `c`
pub fn expected_charge(p: &Program, c: i64, v: &Val) -> i64 {
    // (a cost near i64::MAX saturates, as the per-entry charge does)
    (if c != 0 { c } else { p.cfg.coster_cost(v) }).saturating_add(internal(p))
}

// ------------------------------------------------------------------------------------------------
// C01

pub fn o_policy(p: &Program, t: &Trace) -> Vec<Finding> {
    let mut out = Vec::new();
    let mut prev = stretto::verif::PolicySnap { used: 0, max_cost: p.cfg.max_cost, key_costs: vec![] };
    let mut slack: i128 = 0;
    for ev in &t.policy_events {
        let s = &ev.snap;
        let sum: i128 = s.key_costs.iter().map(|(_, c)| *c as i128).sum();
        if sum > i64::MAX as i128 {
            // domain bound of this check: the charged total is an i64 in the API (max_cost, cap);
            // once the per-entry charges of simultaneously charged entries add up to more than
            // i64::MAX the total is not representable and nothing is claimed for the rest of this run
            break;
        }
        if s.used as i128 != sum {
            out.push(f("policy-used-mismatch", format!("charged total {} but the per-entry charges sum to {} ({:?})", s.used, sum, s.key_costs)));
            break;
        }
        let pk: HashMap<u64, i64> = prev.key_costs.iter().copied().collect();
        let new: Vec<(u64, i64)> = s.key_costs.iter().copied().filter(|(k, _)| !pk.contains_key(k)).collect();
        if !new.is_empty() {
            if s.used > s.max_cost {
                out.push(f(
                    "admission-over-budget",
                    format!("after admitting {:?} the charged total is {} > max_cost {} (before: used {} max {})", new, s.used, s.max_cost, prev.used, prev.max_cost),
                ));
                break;
            }
            for (k, c) in &new {
                if *c > s.max_cost {
                    out.push(f("oversize-admitted", format!("key {} admitted with cost {} > max_cost {}", k, c, s.max_cost)));
                }
            }
            slack = 0;
        } else {
            let inc: i128 = s.key_costs.iter().map(|(k, c)| pk.get(k).map(|pc| (*c as i128 - *pc as i128).max(0)).unwrap_or(0)).sum();
            slack += inc + (prev.max_cost as i128 - s.max_cost as i128).max(0);
            // an empty policy charges nothing: a negative max_cost (accepted by the builder) is
            // then trivially "exceeded" by 0 and nothing is claimed
            if !s.key_costs.is_empty() && s.used as i128 > s.max_cost as i128 + slack {
                out.push(f(
                    "over-budget-without-update",
                    format!("charged total {} exceeds max_cost {} by more than updates/lowered max_cost added since the last admission ({})", s.used, s.max_cost, slack),
                ));
                break;
            }
        }
        prev = s.clone();
    }
    // max_cost() reflects update_max_cost()
    let single = p.threads.len() <= 1;
    let passed: HashSet<i64> = t.recs.iter().filter_map(|r| if let Op::MaxCost { m } = r.op { Some(m) } else { None }).collect();
    for r in &t.recs {
        if let (Op::MaxCost { m }, Res::Int(x)) = (&r.op, &r.res) {
            if (single && x != m) || (!single && !passed.contains(x)) {
                out.push(f("max-cost-not-updated", format!("update_max_cost({}) then max_cost() returned {}", m, x)));
            }
        }
    }
    if single {
        // every policy state after update_max_cost(m) returned carries m
        let mut cur = p.cfg.max_cost;
        let mut evs = t.policy_events.iter().peekable();
        for r in sorted_recs(t) {
            while let Some(e) = evs.peek() {
                if e.at < r.call {
                    if e.snap.max_cost != cur {
                        out.push(f("max-cost-not-effective", format!("policy works with max_cost {} but the last update_max_cost set {}", e.snap.max_cost, cur)));
                        return out;
                    }
                    evs.next();
                } else {
                    break;
                }
            }
            if let Op::MaxCost { m } = r.op {
                // events during the call may carry either value
                while let Some(e) = evs.peek() {
                    if e.at <= r.ret {
                        evs.next();
                    } else {
                        break;
                    }
                }
                cur = m;
            }
        }
    }
    out
}

// ------------------------------------------------------------------------------------------------
// C02 (+ the key-isolation clause of C18)

/// `k` is resident for the whole concurrent part: every successful write to it is in place.
fn always_resident(p: &Program, k: u64) -> bool {
    if p.cfg.validator != ValidatorMode::Always {
        return false;
    }
    let set_up = p.setup.iter().rev().find(|o| o.key() == Some(k)).map(|o| matches!(o, Op::Ins { ttl_ms: 0, .. })).unwrap_or(false);
    if !set_up {
        return false;
    }
    let mut total: i64 = 0;
    let mut per: BTreeMap<u64, i64> = BTreeMap::new();
    for o in p.setup.iter().chain(p.threads.iter().flatten()) {
        match o {
            Op::Rem { k: kk } if *kk == k => return false,
            Op::Clear | Op::Close | Op::MaxCost { .. } | Op::Adv { .. } | Op::AdvNs { .. } => return false,
            Op::Ins { k: kk, ttl_ms, .. } if *kk == k && *ttl_ms != 0 => return false,
            Op::Ins { k: kk, c, .. } | Op::Pres { k: kk, c } => {
                let c = if *c == 0 { p.cfg.coster_base + p.cfg.coster_mod as i64 } else { *c } + internal(p);
                let e = per.entry(*kk).or_insert(0);
                *e = (*e).max(c);
            }
            _ => {}
        }
    }
    for c in per.values() {
        total += c;
    }
    total <= p.cfg.max_cost
}

pub fn o_lookup(p: &Program, t: &Trace) -> Vec<Finding> {
    let mut out = Vec::new();
    let mut ok: HashMap<Val, &Rec> = HashMap::new();
    let mut failed: HashMap<Val, &Rec> = HashMap::new();
    for r in &t.recs {
        if let Some(v) = r.wrote {
            if ok_write(r) {
                ok.insert(v, r);
            } else {
                failed.insert(v, r);
            }
        }
    }
    for l in t.recs.iter().filter(|r| is_lookup(r)) {
        let (v, k) = match (&l.res, l.op.key()) {
            (Res::Val(Some((v, _))), Some(k)) => (*v, k),
            _ => continue,
        };
        if v.key != k {
            out.push(f("lookup-foreign-value", format!("{} returned {:?}, a value written under key {}", l.op.short(), v, v.key)));
            continue;
        }
        let w = match ok.get(&v) {
            Some(w) => *w,
            None => {
                if failed.contains_key(&v) {
                    out.push(f("lookup-value-of-refused-write", format!("{} returned {:?} whose insert returned false / an error", l.op.short(), v)));
                } else {
                    out.push(f("lookup-unknown-value", format!("{} returned {:?} which nobody wrote", l.op.short(), v)));
                }
                continue;
            }
        };
        if w.call > l.ret {
            out.push(f("lookup-from-the-future", format!("{} returned {:?} before it was written", l.op.short(), v)));
        }
        for r in &t.recs {
            let kind = match r.op {
                Op::Rem { k: rk } if rk == k => "remove",
                Op::Clear => "clear",
                _ => continue,
            };
            if r.res != Res::Unit || !(w.ret < r.call) {
                continue;
            }
            // a remove() takes effect when its queued deletion is applied (a quiescent point in
            // between is required); a clear() has taken effect when it returns: the processor wiped
            // the store and discarded the buffer before acknowledging it, so whatever was written
            // (insert returned) before clear() was CALLED is gone for every lookup that begins
            // after it returned
            if (kind == "clear" && r.ret < l.call) || t.quiescent_at.iter().any(|q| r.ret < *q && *q < l.call) {
                out.push(f(
                    &format!("lookup-stale-after-{}", kind),
                    format!("{} returned {:?}, written before a {}() that had taken effect before the lookup began (clear: it had returned; remove: returned and a quiescent point followed)", l.op.short(), v, kind),
                ));
            }
        }
        // an insert during whose call the previous value of the key was handed to on_exit replaced
        // a RESIDENT entry in place (single client: nobody else can have caused that callback)
        let in_place = |w2: &Rec| -> bool {
            p.threads.len() == 1
                && matches!(w2.op, Op::Ins { .. } | Op::Pres { .. })
                && t.ledger.iter().any(|e| e.kind == CbKind::Exit && e.at > w2.call && e.at < w2.ret && e.val.map(|v| v.key == k).unwrap_or(false))
        };
        if always_resident(p, k) || p.threads.len() == 1 {
            for w2 in ok.values() {
                if !(always_resident(p, k) || in_place(w2) || matches!(w2.op, Op::Mut { .. })) {
                    continue;
                }
                // a later remove / clear legitimately ends the life of w2's value
                // ... and so does an EARLIER remove / clear whose queued deletion may still have
                // been pending when w2 was written (nothing flushed the buffer in between): the
                // deletion is applied to whatever is resident when the processor reaches it, and
                // inserts queued behind it land afterwards.  That is the buffered-delete design
                // (remove cancels what is in flight), not a rollback of w2 to what it replaced.
                let flushed_before_w2 = |r: &Rec| r.ret < w2.call && t.recs.iter().any(|s| matches!(s.op, Op::Settle | Op::Wait) && s.call > r.ret && s.ret < w2.call);
                let ended = t.recs.iter().any(|r| (matches!(r.op, Op::Rem { k: rk } if rk == k) || matches!(r.op, Op::Clear | Op::Close)) && r.call < l.ret && !flushed_before_w2(r));
                let expired = matches!(w2.op, Op::Ins { ttl_ms, .. } if ttl_ms > 0);
                if ended || expired || p.cfg.max_cost < 100 {
                    continue;
                }
                if w2.op.key() == Some(k) && w.ret < w2.call && w2.ret < l.call {
                    out.push(f(
                        "lookup-rolled-back",
                        format!("{} returned {:?} although the later in-place write {:?} of the resident key had already returned", l.op.short(), v, w2.wrote),
                    ));
                    break;
                }
            }
        }
    }
    out
}

// ------------------------------------------------------------------------------------------------
// reference map interpreter (C03, C04, C09, C11): single client, quiescence after every operation

#[derive(Clone, Debug, PartialEq)]
enum KState {
    Absent,
    Live { val: Val, deadline: Option<u128>, cost: i64 },
    /// past its deadline, physically maybe still there
    Expired,
    /// the statement does not say which side wins (expired-unreclaimed key met a vetoing validator)
    Unknown,
}

pub struct MapModel {
    keys: BTreeMap<u64, KState>,
    closed: bool,
}

fn settled_single(p: &Program) -> bool {
    if p.threads.len() != 1 {
        return false;
    }
    let ops = &p.threads[0];
    let mut i = 0;
    while i < ops.len() {
        match ops[i] {
            Op::Settle | Op::Snap => {}
            _ => {
                if !matches!(ops.get(i + 1), Some(Op::Settle)) {
                    return false;
                }
            }
        }
        i += 1;
    }
    true
}

fn veto(p: &Program, prev: &Val, new: &Val) -> bool {
    match p.cfg.validator {
        ValidatorMode::Always => false,
        ValidatorMode::Never => true,
        ValidatorMode::Newer => !(Program::rank(new.seq) > Program::rank(prev.seq)),
    }
}

/// Exact-map oracle.  Preconditions (guaranteed by the generators that use it): the combined cost
/// of all keys fits in max_cost, the insert buffer cannot overflow, every operation is followed by
/// a settle, keys do not collide.
pub fn o_map(p: &Program, t: &Trace) -> Vec<Finding> {
    let mut out = Vec::new();
    if !settled_single(p) {
        return out;
    }
    let mut m = MapModel { keys: BTreeMap::new(), closed: false };
    let mut snaps = t.snaps.iter().filter(|s| s.quiescent).peekable();
    let check_snap = |m: &MapModel, s: &Snap, out: &mut Vec<Finding>| {
        for (k, st) in &m.keys {
            let idx = p.cfg.build_key(*k).0;
            let found = s.entries.iter().find(|e| e.index == idx && s.alive(e));
            match st {
                KState::Live { val, deadline, .. } => match found {
                    None => out.push(f("map-entry-lost", format!("key {} (value {:?}) should be retrievable at this quiescent point but is not resident", k, val))),
                    Some(e) => {
                        if e.value != *val {
                            out.push(f("map-wrong-value", format!("key {} holds {:?}, the last value written is {:?}", k, e.value, val)));
                        }
                        let dl = if e.d_ns == 0 { None } else { Some(e.created_ns + e.d_ns) };
                        if dl != *deadline {
                            out.push(f("map-wrong-deadline", format!("key {} has deadline {:?}, expected {:?}", k, dl, deadline)));
                        }
                    }
                },
                KState::Absent | KState::Expired => {
                    if let Some(e) = found {
                        out.push(f("map-ghost-entry", format!("key {} should be gone but {:?} is resident and alive", k, e.value)));
                    }
                }
                KState::Unknown => {}
            }
        }
    };
    for r in sorted_recs(t) {
        // quiescent snapshots taken before this call see the model as it is now
        while let Some(s) = snaps.peek() {
            if s.at < r.call {
                let now = s.now_ns;
                for st in m.keys.values_mut() {
                    if let KState::Live { deadline: Some(d), .. } = st {
                        if *d <= now {
                            *st = KState::Expired;
                        }
                    }
                }
                check_snap(&m, s, &mut out);
                snaps.next();
            } else {
                break;
            }
        }
        if !out.is_empty() {
            return out;
        }
        let now = r.call_ns;
        for st in m.keys.values_mut() {
            if let KState::Live { deadline: Some(d), .. } = st {
                if *d <= now {
                    *st = KState::Expired;
                }
            }
        }
        let bad = |what: &str, out: &mut Vec<Finding>, class: &str| {
            out.push(f(class, format!("{} returned {:?}: {}", r.op.short(), r.res, what)));
        };
        match r.op {
            Op::Ins { k, c, ttl_ms } => {
                let v = r.wrote.unwrap();
                if m.closed {
                    if r.res != Res::Bool(false) {
                        bad("insert on a closed cache must return false", &mut out, "map-insert-after-close");
                    }
                    continue;
                }
                if r.res != Res::Bool(true) {
                    bad("an insert below capacity with room in the buffer must be accepted", &mut out, "map-insert-refused");
                    continue;
                }
                let deadline = if ttl_ms == 0 { None } else { Some(now + ttl_len_ns(ttl_ms)) };
                let cost = expected_charge(p, c, &v);
                let st = m.keys.entry(k).or_insert(KState::Absent);
                match st.clone() {
                    KState::Absent => *st = KState::Live { val: v, deadline, cost },
                    KState::Live { val: pv, .. } => {
                        if !veto(p, &pv, &v) {
                            *st = KState::Live { val: v, deadline, cost }
                        } else if let KState::Live { cost: pc, .. } = st {
                            // a vetoed insert still re-charges the entry (the statement only protects value and TTL)
                            *pc = cost;
                        }
                    }
                    KState::Expired | KState::Unknown => {
                        if p.cfg.validator == ValidatorMode::Always {
                            *st = KState::Live { val: v, deadline, cost }
                        } else {
                            *st = KState::Unknown
                        }
                    }
                }
            }
            Op::Pres { k, c } => {
                let v = r.wrote.unwrap();
                if m.closed {
                    if r.res != Res::Bool(false) {
                        bad("insert_if_present on a closed cache must return false", &mut out, "map-insert-after-close");
                    }
                    continue;
                }
                let st = m.keys.entry(k).or_insert(KState::Absent);
                match st.clone() {
                    KState::Absent => {
                        if r.res != Res::Bool(false) {
                            bad("insert_if_present on an absent key must return false", &mut out, "present-created-entry");
                        }
                    }
                    KState::Live { val: pv, .. } => {
                        if veto(p, &pv, &v) {
                            // the statement fixes what a vetoed write leaves behind (value and TTL
                            // exactly as they were), not what the call returns: the entry stays as
                            // it is in the reference map and every later lookup / snapshot is
                            // compared against that
                        } else if r.res != Res::Bool(true) {
                            bad("insert_if_present on a resident key must act as an update", &mut out, "present-refused-resident");
                        } else {
                            *st = KState::Live { val: v, deadline: None, cost: expected_charge(p, c, &v) };
                        }
                    }
                    // expired but possibly not yet reclaimed: either outcome; the result tells which
                    KState::Expired | KState::Unknown => {
                        if r.res == Res::Bool(true) && p.cfg.validator == ValidatorMode::Always {
                            *st = KState::Live { val: v, deadline: None, cost: expected_charge(p, c, &v) };
                        } else if r.res == Res::Bool(true) {
                            *st = KState::Unknown;
                        }
                    }
                }
            }
            Op::Rem { k } => {
                if r.res != Res::Unit {
                    bad("remove must succeed", &mut out, "map-remove-failed");
                }
                if !m.closed {
                    m.keys.insert(k, KState::Absent);
                }
            }
            Op::Get { k } | Op::Mut { k } | Op::Ttl { k } => {
                let st = m.keys.get(&k).cloned().unwrap_or(KState::Absent);
                let st = if m.closed && !matches!(r.op, Op::Ttl { .. }) { KState::Absent } else { st };
                match st {
                    KState::Unknown => {}
                    KState::Absent | KState::Expired => {
                        let none = matches!(r.res, Res::Val(None) | Res::Ttl(None));
                        if !none {
                            let class = if st == KState::Expired { "served-after-ttl" } else { "map-lookup-of-absent-key" };
                            bad("the key is absent / its TTL has elapsed", &mut out, class);
                        }
                    }
                    KState::Live { val, deadline, cost } => {
                        let remaining = deadline.map(|d| d - now).unwrap_or(u128::MAX);
                        match (&r.op, &r.res) {
                            (Op::Get { .. }, Res::Val(Some((v, Some(ttl))))) => {
                                if *v != val {
                                    bad(&format!("the last value written is {:?}", val), &mut out, "map-wrong-value");
                                }
                                if *ttl != remaining {
                                    bad(&format!("ValueRef::ttl should be {} ns", remaining), &mut out, "wrong-remaining-ttl");
                                }
                            }
                            (Op::Mut { .. }, Res::Val(Some((v, _)))) => {
                                if *v != val {
                                    bad(&format!("the last value written is {:?}", val), &mut out, "map-wrong-value");
                                }
                                m.keys.insert(k, KState::Live { val: r.wrote.unwrap(), deadline, cost });
                            }
                            (Op::Ttl { .. }, Res::Ttl(Some(ttl))) => {
                                if *ttl != remaining {
                                    bad(&format!("get_ttl should be {} ns", remaining), &mut out, "wrong-remaining-ttl");
                                }
                            }
                            _ => {
                                let class = if deadline.is_none() { "map-entry-lost" } else { "map-entry-lost-before-ttl" };
                                bad(&format!("the key holds {:?} (deadline {:?})", val, deadline), &mut out, class);
                            }
                        }
                    }
                }
            }
            Op::Clear => {
                if r.res != Res::Unit {
                    bad("clear must succeed", &mut out, "clear-failed");
                }
                if !m.closed {
                    m.keys.values_mut().for_each(|s| *s = KState::Absent);
                }
            }
            Op::Close => {
                if r.res == Res::Unit {
                    m.closed = true;
                    m.keys.values_mut().for_each(|s| *s = KState::Absent);
                }
            }
            _ => {}
        }
        if !out.is_empty() {
            return out;
        }
    }
    for s in snaps {
        let now = s.now_ns;
        for st in m.keys.values_mut() {
            if let KState::Live { deadline: Some(d), .. } = st {
                if *d <= now {
                    *st = KState::Expired;
                }
            }
        }
        check_snap(&m, s, &mut out);
    }
    // nothing refused, nothing evicted early
    for e in &t.ledger {
        match e.kind {
            CbKind::Reject => {
                let vetoed = e.val.map(|v| t.validator_calls.iter().any(|(_, c, ok)| *c == v && !*ok)).unwrap_or(false);
                if !vetoed {
                    out.push(f("map-rejected-below-capacity", format!("value {:?} was refused by the policy although everything fits", e.val)));
                }
            }
            CbKind::Evict => {
                if e.exp_expired != Some(true) {
                    out.push(f("evicted-unexpired", format!("value {:?} was evicted although its TTL had not elapsed (or it has none) and everything fits", e.val)));
                }
            }
            CbKind::Exit => {}
        }
    }
    out
}

/// C09 extra: a vetoed replacement leaves value and TTL bit-identical (compared on snapshots).
pub fn o_veto_identity(p: &Program, t: &Trace) -> Vec<Finding> {
    let mut out = Vec::new();
    if !settled_single(p) {
        return out;
    }
    let snaps: Vec<&Snap> = t.snaps.iter().filter(|s| s.quiescent).collect();
    for r in &t.recs {
        let v = match (r.op, r.wrote) {
            (Op::Ins { .. }, Some(v)) | (Op::Pres { .. }, Some(v)) => v,
            _ => continue,
        };
        let vetoed = t.validator_calls.iter().any(|(_, c, ok)| *c == v && !*ok);
        if !vetoed {
            continue;
        }
        let idx = p.cfg.build_key(v.key).0;
        let before = snaps.iter().rev().find(|s| s.at < r.call);
        let after = snaps.iter().find(|s| s.at > r.ret);
        if let (Some(b), Some(a)) = (before, after) {
            let eb = b.entries.iter().find(|e| e.index == idx);
            let ea = a.entries.iter().find(|e| e.index == idx);
            match (eb, ea) {
                (Some(eb), Some(ea)) => {
                    if eb.value != ea.value || eb.d_ns != ea.d_ns || eb.created_ns != ea.created_ns {
                        out.push(f("veto-changed-entry", format!("{} was vetoed but the resident entry changed from {:?} to {:?}", r.op.short(), eb, ea)));
                    }
                }
                // the entry was resident (the validator was consulted); it may only disappear by expiring
                (Some(eb), None) => {
                    if eb.d_ns == 0 || a.now_ns < eb.created_ns + eb.d_ns {
                        out.push(f("veto-changed-entry", format!("{} was vetoed but the resident entry {:?} disappeared", r.op.short(), eb)));
                    }
                }
                _ => {}
            }
        }
        if a_lookup_returns(t, v) {
            out.push(f("veto-value-visible", format!("{} was vetoed but a lookup returned its value {:?}", r.op.short(), v)));
        }
    }
    out
}
fn a_lookup_returns(t: &Trace, v: Val) -> bool {
    t.recs.iter().any(|r| matches!(&r.res, Res::Val(Some((x, _))) if *x == v))
}

// ------------------------------------------------------------------------------------------------
// C05

pub fn o_reclaim(p: &Program, t: &Trace) -> Vec<Finding> {
    let mut out = Vec::new();
    if !settled_single(p) {
        return out;
    }
    let recs = sorted_recs(t);
    let interval = p.cfg.cleanup_ms as u128 * 1_000_000;
    for (i, w) in recs.iter().enumerate() {
        let (k, c, ttl_ms) = match w.op {
            Op::Ins { k, c, ttl_ms } if ttl_ms > 0 && w.res == Res::Bool(true) => (k, c, ttl_ms),
            _ => continue,
        };
        let v = w.wrote.unwrap();
        // a vetoed write never became an entry
        if t.validator_calls.iter().any(|(_, cv, ok)| *cv == v && !*ok) {
            continue;
        }
        let deadline = w.call_ns + ttl_len_ns(ttl_ms);
        // first later operation that removes / overwrites the entry or wipes the cache
        let superseded_at = recs[i + 1..]
            .iter()
            .find(|r| match r.op {
                // (a write the validator refused overwrote nothing)
                Op::Ins { k: k2, .. } => k2 == k && !r.wrote.map(|nv| t.validator_calls.iter().any(|(_, cv, ok)| *cv == nv && !*ok)).unwrap_or(false),
                Op::Rem { k: k2 } | Op::Mut { k: k2 } => k2 == k,
                Op::Pres { k: k2, .. } => k2 == k && r.res == Res::Bool(true),
                Op::Clear | Op::Close => true,
                _ => false,
            })
            .map(|r| r.call);
        let idx = p.cfg.build_key(k).0;
        let due = deadline + 1_000_000_000 + interval;
        for s in t.snaps.iter().filter(|s| s.quiescent && s.now_ns >= due) {
            if let Some(sup) = superseded_at {
                // superseded before it could be reclaimed: "unless it was removed or overwritten first"
                let reclaimed_before = t.ledger.iter().any(|e| e.kind == CbKind::Evict && e.val == Some(v) && e.at < sup);
                if !reclaimed_before {
                    break;
                }
            }
            if s.entries.iter().any(|e| e.index == idx && e.value == v) {
                out.push(f(
                    "expired-not-reclaimed",
                    format!(
                        "{:?} (ttl {} ms, deadline +{} ms) is still physically resident at +{} ms, later than deadline + 1 s + cleanup interval ({} ms)",
                        v,
                        ttl_ms,
                        (deadline - rt_e0(p)) / 1_000_000,
                        (s.now_ns - rt_e0(p)) / 1_000_000,
                        p.cfg.cleanup_ms
                    ),
                ));
                return out;
            }
            let later_write = recs.iter().any(|r| r.call > w.call && r.call < s.at && matches!(r.op, Op::Ins{k:k2,..} | Op::Pres{k:k2,..} if k2 == k) && !r.wrote.map(|nv| t.validator_calls.iter().any(|(_, cv, ok)| *cv == nv && !*ok)).unwrap_or(false));
            if !later_write && s.policy.key_costs.iter().any(|(kk, _)| *kk == idx) {
                out.push(f("expired-charge-not-released", format!("{:?} expired and was reclaimed but key {} is still charged", v, k)));
                return out;
            }
            let evs: Vec<&CbEvent> = t.ledger.iter().filter(|e| e.val == Some(v) && e.at < s.at).collect();
            let n_evict = evs.iter().filter(|e| e.kind == CbKind::Evict).count();
            if n_evict != 1 || evs.len() != 1 {
                out.push(f(
                    "expired-callback-count",
                    format!("{:?} expired and was reclaimed; expected exactly one on_evict, saw {:?}", v, evs.iter().map(|e| e.kind).collect::<Vec<_>>()),
                ));
                return out;
            }
            let exp = expected_charge(p, c, &v);
            if evs[0].cost != exp {
                out.push(f("expired-callback-cost", format!("{:?} was handed to on_evict with cost {} but was charged {}", v, evs[0].cost, exp)));
                return out;
            }
            break;
        }
    }
    for e in &t.ledger {
        if e.kind == CbKind::Evict && e.exp_expired != Some(true) {
            out.push(f("evicted-unexpired", format!("value {:?} was handed to on_evict although its TTL had not elapsed (or it has none)", e.val)));
        }
    }
    out
}
fn rt_e0(p: &Program) -> u128 {
    stretto_verif_rt::world::E0_NS + p.cfg.phase_ms as u128 * 1_000_000
}

// ------------------------------------------------------------------------------------------------
// C06

pub fn o_agree(p: &Program, t: &Trace) -> Vec<Finding> {
    let mut out = Vec::new();
    // "no operation has reported an error"
    if any_err(t) {
        return out;
    }
    let _ = p;
    for s in t.snaps.iter().filter(|s| s.quiescent) {
        let resident: HashSet<u64> = s.entries.iter().map(|e| e.index).collect();
        let charged: HashSet<u64> = s.policy.key_costs.iter().map(|(k, _)| *k).collect();
        let mut ru: Vec<&u64> = resident.difference(&charged).collect();
        let mut cg: Vec<&u64> = charged.difference(&resident).collect();
        ru.sort();
        cg.sort();
        if !ru.is_empty() {
            out.push(f("resident-uncharged", format!("at a quiescent point keys {:?} are resident but the policy does not charge for them", ru)));
        }
        if !cg.is_empty() {
            out.push(f("charged-gone", format!("at a quiescent point the policy charges for keys {:?} that are not resident", cg)));
        }
        if s.len != s.entries.len() {
            out.push(f("len-mismatch", format!("len() = {} but {} entries are resident", s.len, s.entries.len())));
        }
        if !out.is_empty() {
            break;
        }
    }
    out
}

// ------------------------------------------------------------------------------------------------
// C08

pub fn o_ledger(p: &Program, t: &Trace) -> Vec<Finding> {
    let mut out = Vec::new();
    let _ = p;
    let fin = match t.snaps.iter().rev().find(|s| s.quiescent) {
        Some(s) => s,
        None => return out,
    };
    // a value overwritten in place through a get_mut guard is the user's own drop (the guard was
    // obtained on exactly that value); the value written through the guard is accounted for like
    // any other
    let overwritten: HashSet<Val> = t.recs.iter().filter(|r| matches!(r.op, Op::Mut { .. })).filter_map(|r| if let Res::Val(Some((x, _))) = &r.res { Some(*x) } else { None }).collect();
    for w in &t.recs {
        let v = match (w.op, w.wrote) {
            (Op::Ins { .. }, Some(v)) | (Op::Pres { .. }, Some(v)) if w.res == Res::Bool(true) => v,
            (Op::Mut { .. }, Some(v)) if matches!(w.res, Res::Val(Some(_))) => v,
            _ => continue,
        };
        if overwritten.contains(&v) {
            continue;
        }
        let evs: Vec<&CbEvent> = t.ledger.iter().filter(|e| e.val == Some(v)).collect();
        if evs.len() > 1 {
            out.push(f(
                "value-callback-twice",
                format!("{:?} was handed back {} times: {:?}", v, evs.len(), evs.iter().map(|e| e.kind).collect::<Vec<_>>()),
            ));
            continue;
        }
        let resident = fin.entries.iter().any(|e| e.value == v);
        if resident && !evs.is_empty() {
            out.push(f("value-resident-and-handed-back", format!("{:?} was handed to {:?} but is still resident", v, evs[0].kind)));
            continue;
        }
        if !resident && evs.is_empty() {
            // clear()/close() drop values without a callback
            let wiped = t.recs.iter().any(|r| matches!(r.op, Op::Clear | Op::Close) && r.ret > w.call);
            if !wiped {
                out.push(f("value-vanished", format!("{:?} (insert returned true) is neither resident nor was it handed to any callback", v)));
                continue;
            }
            // the exception covers RESIDENT values only: a value that was still in the insert buffer
            // when the clear discarded it never became resident and is handed back (on_evict).
            // Decidable for a single client and a key written exactly once (a new item, stored only
            // after the policy admitted it): the policy never listed the key before the clear returned.
            let idx = p.cfg.build_key(v.key).0;
            let writes_of_key = p.setup.iter().chain(p.threads.iter().flatten()).chain(p.post.iter()).filter(|o| matches!(o, Op::Ins { k, .. } | Op::Pres { k, .. } if *k == v.key)).count();
            let closes = t.recs.iter().any(|r| r.op == Op::Close);
            if p.threads.len() == 1 && writes_of_key == 1 && !closes && matches!(w.op, Op::Ins { .. }) {
                if let Some(c) = t.recs.iter().filter(|r| r.op == Op::Clear && r.ret > w.call).min_by_key(|r| r.ret) {
                    let ever_charged = t.policy_events.iter().any(|e| e.at > w.call && e.at < c.ret && e.snap.key_costs.iter().any(|(k, _)| *k == idx));
                    if !ever_charged && w.ret < c.call {
                        out.push(f("value-vanished", format!("{:?} (insert returned true) was still buffered when clear() discarded it (the policy never admitted key {}), yet it was handed to no callback", v, v.key)));
                        continue;
                    }
                }
            }
        }
        if let Some(e) = evs.first() {
            for l in t.recs.iter().filter(|r| is_lookup(r) && r.call > e.at) {
                if matches!(&l.res, Res::Val(Some((x, _))) if *x == v) {
                    out.push(f("lookup-after-callback", format!("{:?} was handed to {:?} and later returned by {}", v, e.kind, l.op.short())));
                }
            }
        }
    }
    out
}

// ------------------------------------------------------------------------------------------------
// C12

pub fn o_close(p: &Program, t: &Trace) -> Vec<Finding> {
    let mut out = Vec::new();
    let closed_at = t.recs.iter().filter(|r| r.op == Op::Close && r.res == Res::Unit).map(|r| r.ret).min();
    if let Some(c) = closed_at {
        for r in t.recs.iter().filter(|r| r.call > c) {
            let okr = match r.op {
                Op::Ins { .. } | Op::Pres { .. } => r.res == Res::Bool(false),
                Op::Get { .. } | Op::Mut { .. } => r.res == Res::Val(None),
                Op::Rem { .. } | Op::Clear | Op::Wait | Op::Close => r.res == Res::Unit,
                _ => true,
            };
            if !okr {
                out.push(f("op-after-close", format!("{} began after close() had returned Ok but returned {:?}", r.op.short(), r.res)));
            }
        }
        if let Some(s) = t.snaps.iter().rev().find(|s| s.quiescent) {
            if s.workers.0 != s.workers.1 {
                out.push(f("worker-left-behind", format!("close() returned Ok but only {} of {} background workers have terminated at the final quiescent point", s.workers.1, s.workers.0)));
            }
        }
    }
    if closed_at.is_none() && p.threads.iter().flatten().chain(p.post.iter()).any(|o| *o == Op::DropHandle) {
        if let Some(s) = t.snaps.iter().rev().find(|s| s.quiescent) {
            if s.workers.0 != s.workers.1 {
                out.push(f(
                    "worker-left-behind-after-drop",
                    format!("every handle was dropped without close() but only {} of {} background workers have terminated", s.workers.1, s.workers.0),
                ));
            }
        }
    }
    out
}

// ------------------------------------------------------------------------------------------------
// C16

pub fn o_cost(p: &Program, t: &Trace) -> Vec<Finding> {
    let mut out = Vec::new();
    if !settled_single(p) || p.cfg.validator != ValidatorMode::Always {
        return out;
    }
    // the latest applied write per key
    let recs = sorted_recs(t);
    for s in t.snaps.iter().filter(|s| s.quiescent) {
        for (idx, charged) in &s.policy.key_costs {
            let e = match s.entries.iter().find(|e| e.index == *idx) {
                Some(e) => e,
                None => continue, // C06 reports this
            };
            let w = recs.iter().rev().find(|r| r.ret < s.at && r.wrote == Some(e.value) && ok_write(r));
            if let Some(w) = w {
                let c = match w.op {
                    Op::Ins { c, .. } | Op::Pres { c, .. } => c,
                    _ => continue,
                };
                let exp = expected_charge(p, c, &e.value);
                if *charged != exp {
                    out.push(f(
                        "wrong-charge",
                        format!("{} applied: key {} is charged {} but given cost {} / coster {} + internal {} = {}", w.op.short(), idx, charged, c, p.cfg.coster_cost(&e.value), internal(p), exp),
                    ));
                    return out;
                }
            }
        }
    }
    for e in &t.ledger {
        if e.kind == CbKind::Exit {
            continue;
        }
        let v = match e.val {
            Some(v) => v,
            None => continue,
        };
        if let Some(w) = recs.iter().find(|r| r.wrote == Some(v)) {
            if let Op::Ins { c, .. } | Op::Pres { c, .. } = w.op {
                let exp = expected_charge(p, c, &v);
                if e.cost != exp {
                    out.push(f("callback-cost", format!("{:?} handed to {:?} with cost {} but its charged cost is {}", v, e.kind, e.cost, exp)));
                }
            }
        }
    }
    out
}

// ------------------------------------------------------------------------------------------------
// C17

pub fn o_metrics(p: &Program, t: &Trace) -> Vec<Finding> {
    let mut out = Vec::new();
    if !p.cfg.metrics {
        return out;
    }
    let closed_at = t.recs.iter().filter(|r| r.op == Op::Close).map(|r| r.call).min().unwrap_or(u64::MAX);
    for s in t.snaps.iter().filter(|s| s.quiescent) {
        let m = match &s.metrics {
            Some(m) => m,
            None => {
                out.push(f("metrics-missing", "metrics enabled but no counters available".into()));
                continue;
            }
        };
        if s.at > closed_at {
            continue;
        }
        // counters restart at clear(): only count what was called after the last clear() returned;
        // an operation overlapping a clear may land on either side, then the equations are skipped
        // the clear that returned last, and every clear concurrent with it: any of them may have been
        // the one whose wipe came last
        let last_clear = t.recs.iter().filter(|r| r.op == Op::Clear && r.ret < s.at).map(|r| (r.ret, r.call)).max();
        let since = last_clear.map(|c| c.0).unwrap_or(0);
        let overlapping = last_clear
            .map(|(_, lcall)| {
                t.recs.iter().filter(|c| c.op == Op::Clear && c.ret < s.at && c.ret > lcall).any(|c| t.recs.iter().any(|r| r.op != Op::Clear && r.call < c.ret && r.ret > c.call))
            })
            .unwrap_or(false);
        let lookups = t.recs.iter().filter(|r| is_lookup(r) && r.call > since && r.ret < s.at).count() as u64;
        if !overlapping && m.hits + m.misses != lookups {
            out.push(f("metrics-hits-misses", format!("hits {} + misses {} != {} lookups since the last clear", m.hits, m.misses, lookups)));
        }
        let hits_expected = t.recs.iter().filter(|r| is_lookup(r) && r.call > since && r.ret < s.at && matches!(r.res, Res::Val(Some(_)))).count() as u64;
        if !overlapping && m.hits != hits_expected {
            out.push(f("metrics-hits", format!("hits {} but {} lookups returned a value since the last clear", m.hits, hits_expected)));
        }
        let charged = s.policy.key_costs.len() as u64;
        if m.keys_added.wrapping_sub(m.keys_evicted) != charged {
            out.push(f("metrics-keys", format!("keys_added {} - keys_evicted {} != {} charged entries", m.keys_added, m.keys_evicted, charged)));
        }
        if m.cost_added.wrapping_sub(m.cost_evicted) != s.policy.used as u64 {
            out.push(f("metrics-cost", format!("cost_added {} - cost_evicted {} != charged total {}", m.cost_added, m.cost_evicted, s.policy.used)));
        }
        let dropped = t.recs.iter().filter(|r| matches!(r.op, Op::Ins { .. }) && r.res == Res::Bool(false) && r.call > since && r.ret < s.at && r.call < closed_at).count() as u64;
        if !overlapping && m.sets_dropped != dropped {
            out.push(f("metrics-sets-dropped", format!("sets_dropped {} but {} inserts of non-resident keys returned false", m.sets_dropped, dropped)));
        }
        let ratio = if m.hits + m.misses == 0 { 0.0 } else { m.hits as f64 / (m.hits + m.misses) as f64 };
        if f64::from_bits(m.ratio_bits) != ratio {
            out.push(f("metrics-ratio", format!("ratio() = {} but hits/(hits+misses) = {}", f64::from_bits(m.ratio_bits), ratio)));
        }
        if !out.is_empty() {
            break;
        }
    }
    out
}

// ------------------------------------------------------------------------------------------------
// C10 (barrier part; termination is the engine's deadlock detection)

/// Thread 0 is the only writer of its keys (another thread may only clear/close).  After each of
/// its `Wait`s that returned Ok, its following lookups / `Snap` must reflect its own earlier
/// operations, or nothing if a concurrent clear discarded them; removed keys stay gone.
pub fn o_barrier(p: &Program, t: &Trace) -> Vec<Finding> {
    let mut out = Vec::new();
    // wait() returns Ok, "or an error if the buffer is full or the cache is being closed": in a
    // program without close / drop whose insert buffer cannot fill up, every wait() returns Ok
    let all_ops = || p.setup.iter().chain(p.threads.iter().flatten()).chain(p.post.iter());
    let queued = all_ops().filter(|o| matches!(o, Op::Ins { .. } | Op::Pres { .. } | Op::Rem { .. } | Op::Wait)).count();
    if !all_ops().any(|o| matches!(o, Op::Close | Op::DropHandle)) && p.cfg.buffer_size > queued {
        for r in t.recs.iter().filter(|r| r.op == Op::Wait) {
            if let Res::Err(e) = &r.res {
                out.push(f("wait-spurious-error", format!("wait() returned Err({}) although nobody closes the cache and the insert buffer ({} slots) cannot be full ({} queueing operations in the program)", e, p.cfg.buffer_size, queued)));
                return out;
            }
        }
    }
    let mine: Vec<&Rec> = {
        let mut v: Vec<&Rec> = t.recs.iter().filter(|r| r.th == 0).collect();
        v.sort_by_key(|r| r.idx);
        v
    };
    let foreign_clear = p.threads.iter().skip(1).flatten().any(|o| matches!(o, Op::Clear | Op::Close));
    let foreign_writes = p.threads.iter().skip(1).flatten().any(|o| matches!(o, Op::Ins { .. } | Op::Pres { .. } | Op::Rem { .. } | Op::Mut { .. }));
    if foreign_writes {
        return out;
    }
    // sequential model of thread 0's own writes (ample capacity is a generator precondition)
    // Some(values): the key holds one of the values inserted since it was last absent (a second
    // insert of a key whose first insert is still buffered is refused by the policy: either may stay)
    let mut model: BTreeMap<u64, Option<Vec<Val>>> = BTreeMap::new();
    // deadline of every value written with a TTL: once a candidate's TTL has run out, "nothing" is
    // a correct answer for its key
    let mut deadline: HashMap<Val, u128> = HashMap::new();
    // keys with a write of this thread that no barrier / quiescent point has flushed yet: the next
    // insert of such a key may be refused by the policy (see above).  A key all of whose writes
    // have been applied takes an accepted insert for good - in place while the entry is there
    // (dead or alive), as a new item with room in the policy once the sweep has collected it.
    let mut unflushed: HashSet<u64> = HashSet::new();
    let ample = p.cfg.validator == ValidatorMode::Always;
    // keys whose remove() has not been flushed by a barrier yet / keys written in that state: the
    // queued deletion is applied to whatever is resident when the processor reaches it, so a
    // write issued after the remove may be taken out by it (the buffered-delete design, §11.4)
    let mut pending_rem: HashSet<u64> = HashSet::new();
    let mut maybe_gone: HashSet<u64> = HashSet::new();
    let mut barrier_ok = false;
    for r in mine {
        if matches!(r.op, Op::Ins { .. } | Op::Pres { .. }) {
            if let Some(k) = r.op.key() {
                if pending_rem.contains(&k) {
                    maybe_gone.insert(k);
                }
            }
        }
        if matches!(r.op, Op::Settle) || (r.op == Op::Wait && r.res == Res::Unit) {
            pending_rem.clear();
            unflushed.clear();
        }
        match r.op {
            Op::Ins { k, ttl_ms, .. } => {
                barrier_ok = false;
                if r.res == Res::Bool(true) {
                    if ttl_ms != 0 {
                        deadline.insert(r.wrote.unwrap(), r.call_ns + ttl_len_ns(ttl_ms));
                    }
                    let flushed = ample && !unflushed.contains(&k) && !maybe_gone.contains(&k);
                    match model.entry(k).or_insert(None) {
                        Some(vs) if !flushed => vs.push(r.wrote.unwrap()),
                        e => *e = Some(vec![r.wrote.unwrap()]),
                    }
                }
                unflushed.insert(k);
            }
            Op::Pres { k, .. } => {
                barrier_ok = false;
                if r.res == Res::Bool(true) {
                    match model.entry(k).or_insert(None) {
                        Some(vs) => vs.push(r.wrote.unwrap()),
                        e => *e = Some(vec![r.wrote.unwrap()]),
                    }
                }
                unflushed.insert(k);
            }
            Op::Rem { k } => {
                barrier_ok = false;
                pending_rem.insert(k);
                maybe_gone.remove(&k);
                if r.res == Res::Unit {
                    model.insert(k, None);
                } else {
                    // the Delete could not be queued: nothing is promised for this key any more
                    model.remove(&k);
                }
            }
            Op::Clear | Op::Close => {
                barrier_ok = false;
                model.values_mut().for_each(|v| *v = None);
            }
            Op::Wait => barrier_ok = r.res == Res::Unit,
            Op::Get { k } if barrier_ok => {
                if let Some(exp) = model.get(&k) {
                    match (exp, &r.res) {
                        (Some(vs), Res::Val(Some((x, _)))) if vs.contains(x) => {}
                        (Some(_), Res::Val(None)) if foreign_clear || maybe_gone.contains(&k) => {}
                        (Some(vs), Res::Val(None)) if vs.iter().any(|v| deadline.get(v).map(|d| *d <= r.call_ns).unwrap_or(false)) => {}
                        (None, Res::Val(None)) => {}
                        (Some(vs), other) => out.push(f("barrier-insert-not-applied", format!("wait() returned Ok but {} returned {:?}; this thread's insert of {:?} should have been applied", r.op.short(), other, vs))),
                        (None, other) => out.push(f("barrier-remove-not-applied", format!("wait() returned Ok but {} returned {:?}; this thread removed the key before", r.op.short(), other))),
                    }
                }
            }
            // with a concurrent clear()/close() the two halves of a snapshot (store, policy) are
            // not read atomically with respect to the wipe, so only the lookups are judged then
            Op::Snap if barrier_ok && !foreign_clear => {
                if let Some(s) = t.snaps.iter().find(|s| !s.quiescent && s.at > r.call && s.at < r.ret) {
                    for (k, exp) in &model {
                        let idx = p.cfg.build_key(*k).0;
                        let charged = s.policy.key_costs.iter().find(|(kk, _)| *kk == idx).map(|x| x.1);
                        let resident = s.entries.iter().any(|e| e.index == idx);
                        match exp {
                            Some(v) => {
                                if resident && charged.is_none() {
                                    out.push(f("barrier-not-charged", format!("wait() returned Ok: {:?} is resident but not charged", v)));
                                }
                                let lapsed = v.iter().any(|x| deadline.get(x).map(|d| *d <= s.now_ns).unwrap_or(false));
                                if !resident && !foreign_clear && !maybe_gone.contains(k) && !lapsed {
                                    out.push(f("barrier-insert-not-applied", format!("wait() returned Ok but {:?} is not resident", v)));
                                }
                            }
                            None => {
                                if resident || charged.is_some() {
                                    out.push(f("barrier-remove-not-applied", format!("wait() returned Ok but removed key {} is resident={} charged={:?}", k, resident, charged)));
                                }
                            }
                        }
                    }
                }
            }
            _ => {}
        }
    }
    out
}

// ------------------------------------------------------------------------------------------------
// C11 (concurrent clause; the settled clauses are o_map + o_agree)

pub fn o_clear_empty(p: &Program, t: &Trace) -> Vec<Finding> {
    let mut out = Vec::new();
    let _ = p;
    // a quiescent snapshot after a clear with no write called after the clear began: empty + zero metrics
    for s in t.snaps.iter().filter(|s| s.quiescent) {
        let last_clear = t.recs.iter().filter(|r| r.op == Op::Clear && r.res == Res::Unit && r.ret < s.at).map(|r| r.call).max();
        let c = match last_clear {
            Some(c) => c,
            None => continue,
        };
        if t.recs.iter().any(|r| r.op == Op::Close) {
            continue;
        }
        // writes that could still be in flight / issued after the clear began
        let later_write = t.recs.iter().any(|r| matches!(r.op, Op::Ins { .. } | Op::Pres { .. } | Op::Mut { .. }) && r.ret > c && r.call < s.at);
        if later_write {
            // still: nothing whose insert had returned before the clear was called may be resident
            for e in &s.entries {
                if let Some(w) = t.recs.iter().find(|r| r.wrote == Some(e.value)) {
                    if w.ret < c {
                        out.push(f("clear-survivor", format!("{:?} was inserted before clear() was called and is still resident after it", e.value)));
                    }
                }
            }
            continue;
        }
        if !s.entries.is_empty() || s.len != 0 {
            out.push(f("clear-survivor", format!("after clear() and quiescence {} entries are resident (len() = {}): {:?}", s.entries.len(), s.len, s.entries.iter().map(|e| e.value).collect::<Vec<_>>())));
        }
        if s.policy.used != 0 || !s.policy.key_costs.is_empty() {
            out.push(f("clear-charge-left", format!("after clear() and quiescence the policy still charges {} for {:?}", s.policy.used, s.policy.key_costs)));
        }
        if let Some(m) = &s.metrics {
            let later_ops = t.recs.iter().any(|r| (is_lookup(r) || matches!(r.op, Op::Rem { .. })) && r.ret > c && r.call < s.at);
            if !later_ops {
                let all = [m.hits, m.misses, m.keys_added, m.keys_updated, m.keys_evicted, m.cost_added, m.cost_evicted, m.sets_dropped, m.sets_rejected, m.gets_dropped, m.gets_kept];
                if all.iter().any(|x| *x != 0) {
                    out.push(f("clear-metrics-not-reset", format!("after clear() and quiescence the counters are {:?}", all)));
                }
            }
        }
        if !s.buckets.iter().all(|(_, v)| v.is_empty()) {
            // internal, reported as information through the lookups it eventually breaks (o_map); not a finding by itself
        }
    }
    out
}

// ------------------------------------------------------------------------------------------------
// C18 (index-collision isolation, single settled client)

pub fn o_collide(p: &Program, t: &Trace) -> Vec<Finding> {
    let mut out = Vec::new();
    if !settled_single(p) {
        return out;
    }
    // slot model: index -> owner (conflict, value, deadline).  A slot whose owner's TTL has run out
    // stays with that (dead) owner until it is swept, which the model does not time: from the first
    // insert of a DIFFERENT key into such a slot on, the slot is undetermined (the insert was
    // refused if the dead entry was still there, accepted if it had been swept) and only the
    // cross-key rules of o_lookup apply to it.
    #[derive(Clone)]
    enum Slot {
        Owned(u64, Val, Option<u128>),
        Undetermined,
    }
    let mut slots: BTreeMap<u64, Slot> = BTreeMap::new();
    let dead = |s: &Slot, now: u128| matches!(s, Slot::Owned(_, _, Some(d)) if *d <= now);
    for r in sorted_recs(t) {
        let k = match r.op.key() {
            Some(k) => k,
            None => continue,
        };
        let now = r.call_ns;
        let (idx, cf) = p.cfg.build_key(k);
        let cur = slots.get(&idx).cloned();
        if matches!(cur, Some(Slot::Undetermined)) {
            continue;
        }
        let is_dead = cur.as_ref().map(|s| dead(s, now)).unwrap_or(false);
        let owner = match &cur {
            Some(Slot::Owned(c2, v, _)) => Some((*c2, *v)),
            _ => None,
        };
        // an operation that carries the conflict hash 0 skips the conflict check (documented): what
        // it does to a slot owned by another key is not modelled
        if cf == 0 && matches!(owner, Some((c2, _)) if c2 != 0) {
            slots.insert(idx, Slot::Undetermined);
            continue;
        }
        match r.op {
            Op::Ins { ttl_ms, .. } => {
                if r.res == Res::Bool(true) {
                    let deadline = if ttl_ms == 0 { None } else { Some(now + ttl_len_ns(ttl_ms)) };
                    match owner {
                        Some((c2, _)) if c2 != cf => {
                            // another key owns the slot: the newcomer is refused, the owner untouched
                            if is_dead {
                                slots.insert(idx, Slot::Undetermined);
                            }
                        }
                        _ => {
                            slots.insert(idx, Slot::Owned(cf, r.wrote.unwrap(), deadline));
                        }
                    }
                }
            }
            Op::Pres { .. } => {
                if let Some((c2, _)) = owner {
                    if is_dead {
                        slots.insert(idx, Slot::Undetermined);
                    } else if c2 == cf && r.res == Res::Bool(true) {
                        slots.insert(idx, Slot::Owned(cf, r.wrote.unwrap(), None));
                    } else if c2 != cf && r.res == Res::Bool(true) {
                        out.push(f("collision-overwrite", format!("{} updated the slot owned by a different key", r.op.short())));
                    }
                }
            }
            Op::Rem { .. } => {
                if matches!(owner, Some((c2, _)) if c2 == cf) {
                    slots.remove(&idx);
                }
            }
            Op::Get { .. } | Op::Mut { .. } => {
                let exp = owner.filter(|(c2, _)| *c2 == cf && !is_dead).map(|x| x.1);
                let got = match &r.res {
                    Res::Val(x) => x.map(|y| y.0),
                    _ => None,
                };
                if got != exp {
                    let class = match got {
                        Some(g) if g.key != k => "collision-read-other",
                        Some(_) if is_dead => "collision-served-dead-owner",
                        _ => "collision-lost",
                    };
                    out.push(f(class, format!("{} returned {:?}, expected {:?} (keys sharing index {})", r.op.short(), got, exp, idx)));
                }
                if let (Op::Mut { .. }, Some(_)) = (r.op, got) {
                    let d = match &cur {
                        Some(Slot::Owned(_, _, d)) => *d,
                        _ => None,
                    };
                    slots.insert(idx, Slot::Owned(cf, r.wrote.unwrap(), d));
                }
            }
            Op::Ttl { .. } => {
                let exp = owner.filter(|(c2, _)| *c2 == cf && !is_dead).is_some();
                let got = matches!(r.res, Res::Ttl(Some(_)));
                if got != exp {
                    out.push(f("collision-ttl", format!("{} returned {:?}, key present = {}", r.op.short(), r.res, exp)));
                }
            }
            _ => {}
        }
    }
    if let Some(s) = t.snaps.iter().rev().find(|s| s.quiescent) {
        for (idx, slot) in &slots {
            if let Slot::Owned(cf, v, d) = slot {
                if d.map(|d| d <= s.now_ns).unwrap_or(false) {
                    continue;
                }
                match s.entries.iter().find(|e| e.index == *idx) {
                    Some(e) if e.conflict == *cf && e.value == *v => {}
                    other => out.push(f("collision-overwrite", format!("slot {} should hold {:?} (conflict {}) but holds {:?}", idx, v, cf, other.map(|e| (e.conflict, e.value))))),
                }
            }
        }
    }
    out
}
