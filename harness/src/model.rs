//! Harness vocabulary: values, operations, configurations, the cache adaptors (sync / async behind
//! one trait), the ledger callback, and the recorded trace every oracle works on.

use serde::{Deserialize, Serialize};
use std::collections::hash_map::DefaultHasher;
use std::hash::BuildHasherDefault;
use std::sync::{Arc, Mutex};
use std::time::Duration;
use stretto::verif::{EntrySnap, PolicySnap};
use stretto::{AsyncCache, Cache, CacheCallback, Coster, Item, KeyBuilder, UpdateValidator};
use stretto_verif_rt as rt;

pub type FixedState = BuildHasherDefault<DefaultHasher>;

/// Every value written carries the key it was written under and a program-unique sequence number.
#[derive(Clone, Copy, Debug, PartialEq, Eq, Hash, PartialOrd, Ord, Serialize, Deserialize)]
pub struct Val {
    pub key: u64,
    pub seq: u32,
}

#[derive(Clone, Copy, Debug, PartialEq, Eq, Hash, Serialize, Deserialize)]
pub enum Op {
    /// insert_with_ttl (ttl 0 = insert)
    Ins { k: u64, c: i64, ttl_ms: u64 },
    /// insert_if_present
    Pres { k: u64, c: i64 },
    Rem { k: u64 },
    Get { k: u64 },
    /// get_mut + write a fresh value
    Mut { k: u64 },
    Ttl { k: u64 },
    /// get, keep the guard while `ms` of virtual time pass and the background tasks run until they
    /// are idle or wait for the guard, then read ValueRef::ttl() through the guard
    GetHold { k: u64, ms: u64 },
    /// get, keep the guard across a yield to the scheduler (other threads and the background tasks
    /// may run while this client holds the shard's read lock), then drop it
    GetYield { k: u64 },
    /// get, keep the guard across a yield, then (still holding it) ask the cache for max_cost():
    /// a client may call into the policy while it holds a shard guard
    GetMaxCost { k: u64 },
    /// get_mut(k), and with the guard alive insert `n` fresh keys (1001.., cost 1, other shards),
    /// then release the guard: a client may write other keys while it holds a guard
    MutHoldIns { k: u64, n: u64 },
    Clear,
    Wait,
    MaxCost { m: i64 },
    Close,
    Adv { ms: u64 },
    AdvNs { ns: u64 },
    Settle,
    /// facade snapshot without settling (only meaningful when the issuing client is the only writer)
    Snap,
    /// drop this client's handle(s): nothing may be issued by it afterwards
    DropHandle,
}

/// `ttl_ms` values with this bit set carry a TTL in nanoseconds in the low bits (sub-millisecond TTLs)
pub const TTL_NS_TAG: u64 = 1 << 62;
/// `ttl_ms == TTL_MAX` stands for `Duration::MAX` ("keep it for ever", spelled as a TTL)
pub const TTL_MAX: u64 = u64::MAX;
/// the `Duration` handed to the cache for an encoded TTL
pub fn ttl_dur(ttl_ms: u64) -> Duration {
    if ttl_ms == TTL_MAX {
        Duration::MAX
    } else if ttl_ms & TTL_NS_TAG != 0 {
        Duration::from_nanos(ttl_ms & !TTL_NS_TAG)
    } else {
        Duration::from_millis(ttl_ms)
    }
}
/// the same in nanoseconds, for the reference models
pub fn ttl_len_ns(ttl_ms: u64) -> u128 {
    if ttl_ms == TTL_MAX {
        Duration::MAX.as_nanos()
    } else if ttl_ms & TTL_NS_TAG != 0 {
        (ttl_ms & !TTL_NS_TAG) as u128
    } else {
        ttl_ms as u128 * 1_000_000
    }
}

impl Op {
    pub fn short(&self) -> String {
        match self {
            Op::Ins { k, c, ttl_ms: 0 } => format!("I({},{})", k, c),
            Op::Ins { k, c, ttl_ms } if *ttl_ms == TTL_MAX => format!("I({},{},max)", k, c),
            Op::Ins { k, c, ttl_ms } if *ttl_ms & TTL_NS_TAG != 0 => format!("I({},{},{}ns)", k, c, ttl_ms & !TTL_NS_TAG),
            Op::Ins { k, c, ttl_ms } => format!("I({},{},{}ms)", k, c, ttl_ms),
            Op::Pres { k, c } => format!("P({},{})", k, c),
            Op::Rem { k } => format!("R({})", k),
            Op::Get { k } => format!("G({})", k),
            Op::Mut { k } => format!("M({})", k),
            Op::Ttl { k } => format!("T({})", k),
            Op::GetHold { k, ms } => format!("H({},{}ms)", k, ms),
            Op::GetYield { k } => format!("Y({})", k),
            Op::GetMaxCost { k } => format!("Q({})", k),
            Op::MutHoldIns { k, n } => format!("B({},{})", k, n),
            Op::Clear => "X".into(),
            Op::Wait => "W".into(),
            Op::MaxCost { m } => format!("U({})", m),
            Op::Close => "Z".into(),
            Op::Adv { ms } => format!("A({}ms)", ms),
            Op::AdvNs { ns } => format!("A({}ns)", ns),
            Op::Settle => "S".into(),
            Op::Snap => "?".into(),
            Op::DropHandle => "D".into(),
        }
    }
    pub fn key(&self) -> Option<u64> {
        match self {
            Op::Ins { k, .. } | Op::Pres { k, .. } | Op::Rem { k } | Op::Get { k } | Op::Mut { k } | Op::Ttl { k } | Op::GetHold { k, .. } | Op::GetYield { k } | Op::GetMaxCost { k } | Op::MutHoldIns { k, .. } => Some(*k),
            _ => None,
        }
    }
}

pub fn ops_short(ops: &[Op]) -> String {
    ops.iter().map(|o| o.short()).collect::<Vec<_>>().join(";")
}

#[derive(Clone, Copy, Debug, PartialEq, Eq, Hash, Serialize, Deserialize)]
pub enum Flavor {
    Sync,
    Async,
}
#[derive(Clone, Copy, Debug, PartialEq, Eq, Hash, Serialize, Deserialize)]
pub enum ValidatorMode {
    Always,
    Never,
    /// accept only a value with a larger sequence number
    Newer,
}
#[derive(Clone, Copy, Debug, PartialEq, Eq, Hash, Serialize, Deserialize)]
pub enum KeyMode {
    /// `TransparentKeyBuilder` semantics: (k, 0)
    Transparent,
    /// index = k % m, conflict = k + 1: distinct keys share an index
    Collide { m: u64 },
    /// index = k % m, conflict = k / m: keys below m carry the conflict hash 0 (the documented
    /// "not provided" value), larger ones a non-zero one
    CollideDiv { m: u64 },
}

#[derive(Clone, Debug, PartialEq, Eq, Hash, Serialize, Deserialize)]
pub struct Cfg {
    pub num_counters: usize,
    pub max_cost: i64,
    pub buffer_size: usize,
    pub buffer_items: usize,
    pub cleanup_ms: u64,
    /// when non-zero: the cleanup interval in nanoseconds (sub-millisecond intervals), overriding cleanup_ms
    #[serde(default)]
    pub cleanup_ns: u64,
    pub metrics: bool,
    pub ignore_internal_cost: bool,
    pub validator: ValidatorMode,
    pub keymode: KeyMode,
    /// Coster: cost(v) = coster_base + (v.seq % coster_mod) when coster_mod > 0, else coster_base
    pub coster_base: i64,
    pub coster_mod: u32,
    /// start phase of the virtual clock within its second
    pub phase_ms: u64,
    /// metrics / histogram atomics are scheduling points
    pub metrics_points: bool,
    /// order of the builder calls: 0 = flags before the type-changing setters (key builder,
    /// hasher, coster, validator, callback: each of them rebuilds the builder field by field),
    /// 1 = flags after them, 2 = interleaved
    #[serde(default)]
    pub builder_order: u8,
}
impl Cfg {
    pub fn cleanup_interval(&self) -> Duration {
        if self.cleanup_ns > 0 {
            Duration::from_nanos(self.cleanup_ns)
        } else {
            Duration::from_millis(self.cleanup_ms)
        }
    }
}
impl Default for Cfg {
    fn default() -> Self {
        Cfg {
            num_counters: 64,
            max_cost: 100,
            buffer_size: 8,
            buffer_items: 64,
            cleanup_ms: 1000,
            cleanup_ns: 0,
            metrics: false,
            ignore_internal_cost: true,
            validator: ValidatorMode::Always,
            keymode: KeyMode::Transparent,
            coster_base: 3,
            coster_mod: 0,
            phase_ms: 0,
            metrics_points: false,
            builder_order: 0,
        }
    }
}
impl Cfg {
    pub fn coster_cost(&self, v: &Val) -> i64 {
        if self.coster_mod > 0 {
            self.coster_base + (v.seq % self.coster_mod) as i64
        } else {
            self.coster_base
        }
    }
    pub fn build_key(&self, k: u64) -> (u64, u64) {
        match self.keymode {
            KeyMode::Transparent => (k, 0),
            KeyMode::Collide { m } => (k % m, k + 1),
            KeyMode::CollideDiv { m } => (k % m, k / m),
        }
    }
}

#[derive(Clone, Debug, PartialEq, Eq, Hash, Serialize, Deserialize)]
pub struct Program {
    pub cfg: Cfg,
    pub flavor: Flavor,
    /// run deterministically (setup mode), a settle after every operation
    pub setup: Vec<Op>,
    /// thread 0 is the driver; the others are spawned client threads
    pub threads: Vec<Vec<Op>>,
    /// run by the driver after all client threads have been joined (no settle in between)
    #[serde(default)]
    pub post: Vec<Op>,
}
impl Program {
    pub fn short(&self) -> String {
        let mut s = String::new();
        if !self.setup.is_empty() {
            s.push_str(&format!("[{}] ", ops_short(&self.setup)));
        }
        s.push_str(&self.threads.iter().map(|t| ops_short(t)).collect::<Vec<_>>().join(" | "));
        if !self.post.is_empty() {
            s.push_str(&format!(" then {}", ops_short(&self.post)));
        }
        if self.flavor == Flavor::Async {
            s.push_str(" (async)");
        }
        s
    }
    pub fn keys(&self) -> Vec<u64> {
        let mut v: Vec<u64> = self.setup.iter().chain(self.threads.iter().flatten()).chain(self.post.iter()).filter_map(|o| o.key()).collect();
        v.sort_unstable();
        v.dedup();
        v
    }
    pub fn seq_of(th: usize, idx: usize) -> u32 {
        (th as u32 + 1) * 1000 + idx as u32 + 1
    }
    /// "Age" of a value for the newer-wins validator: values written by the deterministic setup
    /// (thread 9) are older than anything the clients write.
    pub fn rank(seq: u32) -> u32 {
        if seq >= 10_000 {
            seq - 10_000
        } else {
            seq
        }
    }
}

// ------------------------------------------------------------------------------------------------
// pluggable pieces handed to the builder

pub struct HKey {
    pub mode: KeyMode,
}
impl KeyBuilder for HKey {
    type Key = u64;
    fn hash_index<Q>(&self, key: &Q) -> u64
    where
        u64: core::borrow::Borrow<Q>,
        Q: core::hash::Hash + Eq + ?Sized,
    {
        let k = raw(key);
        match self.mode {
            KeyMode::Transparent => k,
            KeyMode::Collide { m } | KeyMode::CollideDiv { m } => k % m,
        }
    }
    fn hash_conflict<Q>(&self, _key: &Q) -> u64
    where
        u64: core::borrow::Borrow<Q>,
        Q: core::hash::Hash + Eq + ?Sized,
    {
        // the documented default: a builder that derives both hashes in one pass overrides
        // `build_key` only
        0
    }
    fn build_key<Q>(&self, key: &Q) -> (u64, u64)
    where
        u64: core::borrow::Borrow<Q>,
        Q: core::hash::Hash + Eq + ?Sized,
    {
        let k = raw(key);
        match self.mode {
            KeyMode::Transparent => (k, 0),
            KeyMode::Collide { m } => (k % m, k + 1),
            KeyMode::CollideDiv { m } => (k % m, k / m),
        }
    }
}
fn raw<Q: core::hash::Hash + ?Sized>(key: &Q) -> u64 {
    use std::hash::Hasher;
    struct H(u64);
    impl Hasher for H {
        fn finish(&self) -> u64 {
            self.0
        }
        fn write(&mut self, b: &[u8]) {
            let mut d = [0u8; 8];
            let n = b.len().min(8);
            d[..n].copy_from_slice(&b[..n]);
            self.0 = u64::from_ne_bytes(d);
        }
        fn write_u64(&mut self, i: u64) {
            self.0 = i;
        }
    }
    let mut h = H(0);
    key.hash(&mut h);
    h.finish()
}

pub struct HCoster {
    pub cfg: Cfg,
}
impl Coster for HCoster {
    type Value = Val;
    fn cost(&self, v: &Val) -> i64 {
        self.cfg.coster_cost(v)
    }
}

pub struct HValidator {
    pub mode: ValidatorMode,
    pub calls: Arc<Mutex<Vec<(Val, Val, bool)>>>,
}
impl UpdateValidator for HValidator {
    type Value = Val;
    fn should_update(&self, prev: &Val, curr: &Val) -> bool {
        let r = match self.mode {
            ValidatorMode::Always => true,
            ValidatorMode::Never => false,
            ValidatorMode::Newer => Program::rank(curr.seq) > Program::rank(prev.seq),
        };
        self.calls.lock().unwrap().push((*prev, *curr, r));
        r
    }
}

#[derive(Clone, Copy, Debug, PartialEq, Eq, Hash, Serialize, Deserialize)]
pub enum CbKind {
    Exit,
    Evict,
    Reject,
}
#[derive(Clone, Debug, PartialEq, Eq, Serialize, Deserialize)]
pub struct CbEvent {
    pub kind: CbKind,
    pub val: Option<Val>,
    pub index: u64,
    pub conflict: u64,
    pub cost: i64,
    /// logical time
    pub at: u64,
    /// virtual clock
    pub now_ns: u128,
    /// the entry's deadline had passed when the callback ran (None: no TTL / not applicable)
    pub exp_expired: Option<bool>,
}

#[derive(Clone)]
pub struct Ledger {
    pub log: Arc<Mutex<Vec<CbEvent>>>,
    pub clock: Arc<Mutex<u64>>,
}
impl Ledger {
    fn push(&self, kind: CbKind, val: Option<Val>, index: u64, conflict: u64, cost: i64, exp_expired: Option<bool>) {
        let at = tick(&self.clock);
        self.log.lock().unwrap().push(CbEvent { kind, val, index, conflict, cost, at, now_ns: rt::now_ns(), exp_expired });
    }
}
impl CacheCallback for Ledger {
    type Value = Val;
    fn on_exit(&self, val: Option<Val>) {
        self.push(CbKind::Exit, val, 0, 0, 0, None);
    }
    fn on_evict(&self, item: Item<Val>) {
        let e = if item.exp.is_zero() { None } else { Some(item.exp.is_expired()) };
        self.push(CbKind::Evict, item.val, item.index, item.conflict, item.cost, e);
    }
    fn on_reject(&self, item: Item<Val>) {
        self.push(CbKind::Reject, item.val, item.index, item.conflict, item.cost, None);
    }
}

pub fn tick(c: &Arc<Mutex<u64>>) -> u64 {
    let mut g = c.lock().unwrap();
    *g += 1;
    *g
}

// ------------------------------------------------------------------------------------------------
// results, records, snapshots

#[derive(Clone, Debug, PartialEq, Eq, Hash, Serialize, Deserialize)]
pub enum Res {
    Unit,
    Bool(bool),
    /// lookup: value and `ValueRef::ttl()` in ns (None for get_mut, u128::MAX for "no expiry")
    Val(Option<(Val, Option<u128>)>),
    /// get_ttl in ns (u128::MAX = Duration::MAX)
    Ttl(Option<u128>),
    Int(i64),
    Err(String),
}

#[derive(Clone, Debug, Serialize, Deserialize)]
pub struct Rec {
    pub th: usize,
    pub idx: usize,
    pub op: Op,
    pub call: u64,
    pub ret: u64,
    pub call_ns: u128,
    pub res: Res,
    /// the value this operation wrote (inserts, get_mut writes)
    pub wrote: Option<Val>,
}

#[derive(Clone, Debug, Default, PartialEq, Eq, Serialize, Deserialize)]
pub struct MetricsSnap {
    pub hits: u64,
    pub misses: u64,
    pub keys_added: u64,
    pub keys_updated: u64,
    pub keys_evicted: u64,
    pub cost_added: u64,
    pub cost_evicted: u64,
    pub sets_dropped: u64,
    pub sets_rejected: u64,
    pub gets_dropped: u64,
    pub gets_kept: u64,
    pub ratio_bits: u64,
    pub life_count: i64,
    pub life_display: String,
}

/// What the facade shows at a quiescent point.
#[derive(Clone, Debug)]
pub struct Snap {
    pub at: u64,
    pub quiescent: bool,
    pub now_ns: u128,
    pub entries: Vec<EntrySnap<Val>>,
    pub policy: PolicySnap,
    pub buckets: Vec<(i64, Vec<(u64, u64)>)>,
    pub len: usize,
    pub metrics: Option<MetricsSnap>,
    pub workers: (usize, usize),
    /// popularity estimate of every program key (by index hash)
    pub estimates: Vec<(u64, i64)>,
}
impl Snap {
    /// is entry logically alive (not past its deadline) at snapshot time
    pub fn alive(&self, e: &EntrySnap<Val>) -> bool {
        e.d_ns == 0 || self.now_ns < e.created_ns + e.d_ns
    }
}

#[derive(Clone, Debug)]
pub struct PolicyEvent {
    pub at: u64,
    pub snap: PolicySnap,
}

#[derive(Clone, Debug, Default)]
pub struct Trace {
    pub recs: Vec<Rec>,
    pub ledger: Vec<CbEvent>,
    pub policy_events: Vec<PolicyEvent>,
    pub snaps: Vec<Snap>,
    pub validator_calls: Vec<(Val, Val, bool)>,
    pub evict_rounds: Vec<stretto::verif::EvictRound>,
    /// logical times at which the driver observed quiescence
    pub quiescent_at: Vec<u64>,
}

// ------------------------------------------------------------------------------------------------
// cache adaptors

pub type SCache = Cache<u64, Val, HKey, HCoster, HValidator, Ledger, FixedState>;
pub type ACache = AsyncCache<u64, Val, HKey, HCoster, HValidator, Ledger, FixedState>;

pub struct Shared {
    pub clock: Arc<Mutex<u64>>,
    pub ledger: Ledger,
    pub validator_calls: Arc<Mutex<Vec<(Val, Val, bool)>>>,
    pub policy_events: Arc<Mutex<Vec<PolicyEvent>>>,
}

#[derive(Clone)]
pub enum H {
    S(SCache),
    A(ACache),
}

fn ttl_ns(d: Duration) -> u128 {
    if d == Duration::MAX {
        u128::MAX
    } else {
        d.as_nanos()
    }
}
/// Every way of reading through a lookup guard is exercised: even keys through `value()` and an
/// implicit drop, keys = 1 mod 4 through `as_ref()` + `release()`, keys = 3 mod 4 through `read()`.
fn read_guard(k: u64, r: stretto::ValueRef<'_, Val, FixedState>) -> (Val, Option<u128>) {
    let t = Some(ttl_ns(r.ttl()));
    match k % 4 {
        1 => {
            let v = *r.as_ref();
            r.release();
            (v, t)
        }
        3 => (r.read(), t),
        _ => (*r.value(), t),
    }
}
/// ... and every way of writing through a get_mut guard, by the sequence number of the new value:
/// `write`, `*value_mut() =`, `write_once`, `write` + `release`; the old value is read through
/// `value()`, `as_ref()` or `clone_inner()`.
fn write_guard(mut r: stretto::ValueRefMut<'_, Val, FixedState>, nv: Val) -> (Val, Option<u128>) {
    match nv.seq % 4 {
        0 => {
            let old = *r.value();
            r.write(nv);
            (old, None)
        }
        1 => {
            let old = *r.as_ref();
            *r.value_mut() = nv;
            (old, None)
        }
        2 => {
            let old = r.clone_inner();
            r.write_once(nv);
            (old, None)
        }
        _ => {
            let old = *r.value();
            r.write(nv);
            r.release();
            (old, None)
        }
    }
}
fn b<F: std::future::Future>(f: F) -> F::Output {
    shuttle::future::block_on(f)
}

pub fn build(cfg: &Cfg, flavor: Flavor) -> Result<(H, Shared), stretto::CacheError> {
    let clock = Arc::new(Mutex::new(0u64));
    let ledger = Ledger { log: Arc::new(Mutex::new(Vec::new())), clock: clock.clone() };
    let validator_calls = Arc::new(Mutex::new(Vec::new()));
    let policy_events: Arc<Mutex<Vec<PolicyEvent>>> = Arc::new(Mutex::new(Vec::new()));
    let pe = policy_events.clone();
    let clk = clock.clone();
    let obs: std::rc::Rc<dyn Fn(PolicySnap)> = std::rc::Rc::new(move |snap| {
        let at = tick(&clk);
        pe.lock().unwrap().push(PolicyEvent { at, snap });
    });
    let h = match flavor {
        Flavor::Sync => {
            let kb = HKey { mode: cfg.keymode };
            let hs = FixedState::default();
            let co = HCoster { cfg: cfg.clone() };
            let va = HValidator { mode: cfg.validator, calls: validator_calls.clone() };
            let cb = ledger.clone();
            let bld = Cache::builder(cfg.num_counters, cfg.max_cost);
            let c: SCache = match cfg.builder_order {
                0 => bld
                    .set_ignore_internal_cost(cfg.ignore_internal_cost)
                    .set_buffer_size(cfg.buffer_size)
                    .set_buffer_items(cfg.buffer_items)
                    .set_cleanup_duration(cfg.cleanup_interval())
                    .set_metrics(cfg.metrics)
                    .set_key_builder(kb)
                    .set_hasher(hs)
                    .set_coster(co)
                    .set_update_validator(va)
                    .set_callback(cb)
                    .finalize()?,
                1 => bld
                    .set_key_builder(kb)
                    .set_hasher(hs)
                    .set_coster(co)
                    .set_update_validator(va)
                    .set_callback(cb)
                    .set_ignore_internal_cost(cfg.ignore_internal_cost)
                    .set_buffer_size(cfg.buffer_size)
                    .set_buffer_items(cfg.buffer_items)
                    .set_cleanup_duration(cfg.cleanup_interval())
                    .set_metrics(cfg.metrics)
                    .finalize()?,
                _ => bld
                    .set_metrics(cfg.metrics)
                    .set_callback(cb)
                    .set_buffer_items(cfg.buffer_items)
                    .set_update_validator(va)
                    .set_cleanup_duration(cfg.cleanup_interval())
                    .set_coster(co)
                    .set_buffer_size(cfg.buffer_size)
                    .set_hasher(hs)
                    .set_ignore_internal_cost(cfg.ignore_internal_cost)
                    .set_key_builder(kb)
                    .finalize()?,
            };
            c.verif_observe_policy(obs);
            H::S(c)
        }
        Flavor::Async => {
            let kb = HKey { mode: cfg.keymode };
            let hs = FixedState::default();
            let co = HCoster { cfg: cfg.clone() };
            let va = HValidator { mode: cfg.validator, calls: validator_calls.clone() };
            let cb = ledger.clone();
            let bld = AsyncCache::builder(cfg.num_counters, cfg.max_cost);
            let c: ACache = match cfg.builder_order {
                0 => bld
                    .set_ignore_internal_cost(cfg.ignore_internal_cost)
                    .set_buffer_size(cfg.buffer_size)
                    .set_buffer_items(cfg.buffer_items)
                    .set_cleanup_duration(cfg.cleanup_interval())
                    .set_metrics(cfg.metrics)
                    .set_key_builder(kb)
                    .set_hasher(hs)
                    .set_coster(co)
                    .set_update_validator(va)
                    .set_callback(cb)
                    .finalize(rt::thread::spawn_task)?,
                1 => bld
                    .set_key_builder(kb)
                    .set_hasher(hs)
                    .set_coster(co)
                    .set_update_validator(va)
                    .set_callback(cb)
                    .set_ignore_internal_cost(cfg.ignore_internal_cost)
                    .set_buffer_size(cfg.buffer_size)
                    .set_buffer_items(cfg.buffer_items)
                    .set_cleanup_duration(cfg.cleanup_interval())
                    .set_metrics(cfg.metrics)
                    .finalize(rt::thread::spawn_task)?,
                _ => bld
                    .set_metrics(cfg.metrics)
                    .set_callback(cb)
                    .set_buffer_items(cfg.buffer_items)
                    .set_update_validator(va)
                    .set_cleanup_duration(cfg.cleanup_interval())
                    .set_coster(co)
                    .set_buffer_size(cfg.buffer_size)
                    .set_hasher(hs)
                    .set_ignore_internal_cost(cfg.ignore_internal_cost)
                    .set_key_builder(kb)
                    .finalize(rt::thread::spawn_task)?,
            };
            c.verif_observe_policy(obs);
            H::A(c)
        }
    };
    Ok((h, Shared { clock, ledger, validator_calls, policy_events }))
}

impl H {
    /// Both forms of every insert entry point are exercised: values with an even sequence number
    /// go through the panicking wrappers (`insert`, `insert_with_ttl`, `insert_if_present`), odd
    /// ones through the `try_*` forms.
    pub fn insert(&self, k: u64, v: Val, c: i64, ttl_ms: u64) -> Res {
        let ttl = ttl_dur(ttl_ms);
        if v.seq % 2 == 0 {
            return Res::Bool(match (self, ttl_ms) {
                (H::S(x), 0) => x.insert(k, v, c),
                (H::S(x), _) => x.insert_with_ttl(k, v, c, ttl),
                (H::A(x), 0) => b(x.insert(k, v, c)),
                (H::A(x), _) => b(x.insert_with_ttl(k, v, c, ttl)),
            });
        }
        let r = match (self, ttl_ms) {
            (H::S(x), 0) => x.try_insert(k, v, c),
            (H::S(x), _) => x.try_insert_with_ttl(k, v, c, ttl),
            (H::A(x), 0) => b(x.try_insert(k, v, c)),
            (H::A(x), _) => b(x.try_insert_with_ttl(k, v, c, ttl)),
        };
        match r {
            Ok(x) => Res::Bool(x),
            Err(e) => Res::Err(e.to_string()),
        }
    }
    pub fn insert_if_present(&self, k: u64, v: Val, c: i64) -> Res {
        if v.seq % 2 == 0 {
            return Res::Bool(match self {
                H::S(x) => x.insert_if_present(k, v, c),
                H::A(x) => b(x.insert_if_present(k, v, c)),
            });
        }
        let r = match self {
            H::S(x) => x.try_insert_if_present(k, v, c),
            H::A(x) => b(x.try_insert_if_present(k, v, c)),
        };
        match r {
            Ok(x) => Res::Bool(x),
            Err(e) => Res::Err(e.to_string()),
        }
    }
    /// get, yield to the scheduler with the guard alive, then release it
    pub fn get_yield(&self, k: u64) -> Res {
        match self {
            H::S(x) => {
                let g = x.get(&k);
                rt::thread::yield_now();
                Res::Val(g.map(|r| (*r.value(), Some(ttl_ns(r.ttl())))))
            }
            H::A(x) => {
                let g = b(x.get(&k));
                rt::thread::yield_now();
                Res::Val(g.map(|r| (*r.value(), Some(ttl_ns(r.ttl())))))
            }
        }
    }
    /// get_mut(k); while the guard is alive insert keys 1001..1001+n (cost 1); release; answers
    /// how many of the inserts returned true
    pub fn mut_hold_ins(&self, k: u64, n: u64, seq: u32) -> Res {
        let mut ok = 0i64;
        match self {
            H::S(x) => {
                let g = x.get_mut(&k);
                for i in 0..n {
                    if x.insert(1001 + i, Val { key: 1001 + i, seq }, 1) {
                        ok += 1;
                    }
                }
                drop(g);
            }
            H::A(x) => {
                let g = b(x.get_mut(&k));
                for i in 0..n {
                    if b(x.insert(1001 + i, Val { key: 1001 + i, seq }, 1)) {
                        ok += 1;
                    }
                }
                drop(g);
            }
        }
        Res::Int(ok)
    }
    /// get, yield with the guard alive, call max_cost() (policy lock) still holding it, release
    pub fn get_max_cost(&self, k: u64) -> Res {
        match self {
            H::S(x) => {
                let g = x.get(&k);
                rt::thread::yield_now();
                let _ = x.max_cost();
                Res::Val(g.map(|r| (*r.value(), Some(ttl_ns(r.ttl())))))
            }
            H::A(x) => {
                let g = b(x.get(&k));
                rt::thread::yield_now();
                let _ = x.max_cost();
                Res::Val(g.map(|r| (*r.value(), Some(ttl_ns(r.ttl())))))
            }
        }
    }
    /// get, hold the guard while `ms` of virtual time pass, then ask the guard for its TTL
    pub fn get_hold(&self, k: u64, ms: u64) -> Res {
        match self {
            // (the background tasks run while the guard is held: a sweep that needs this shard
            // waits for the guard, it does not skip the entry)
            H::S(x) => {
                let g = x.get(&k);
                rt::advance(Duration::from_millis(ms));
                rt::settle();
                Res::Val(g.map(|r| (*r.value(), Some(ttl_ns(r.ttl())))))
            }
            H::A(x) => {
                let g = b(x.get(&k));
                rt::advance(Duration::from_millis(ms));
                rt::settle();
                Res::Val(g.map(|r| (*r.value(), Some(ttl_ns(r.ttl())))))
            }
        }
    }
    pub fn remove(&self, k: u64) -> Res {
        let r = match self {
            H::S(x) => x.try_remove(&k),
            H::A(x) => b(x.try_remove(&k)),
        };
        match r {
            Ok(()) => Res::Unit,
            Err(e) => Res::Err(e.to_string()),
        }
    }
    pub fn get(&self, k: u64) -> Res {
        match self {
            H::S(x) => Res::Val(x.get(&k).map(|r| read_guard(k, r))),
            H::A(x) => Res::Val(b(x.get(&k)).map(|r| read_guard(k, r))),
        }
    }
    /// get_mut, read the old value, write `nv`
    pub fn get_mut_write(&self, k: u64, nv: Val) -> Res {
        match self {
            H::S(x) => Res::Val(x.get_mut(&k).map(|r| write_guard(r, nv))),
            H::A(x) => Res::Val(b(x.get_mut(&k)).map(|r| write_guard(r, nv))),
        }
    }
    pub fn get_ttl(&self, k: u64) -> Res {
        match self {
            H::S(x) => Res::Ttl(x.get_ttl(&k).map(ttl_ns)),
            H::A(x) => Res::Ttl(x.get_ttl(&k).map(ttl_ns)),
        }
    }
    pub fn clear(&self) -> Res {
        let r = match self {
            H::S(x) => x.clear(),
            H::A(x) => b(x.clear()),
        };
        match r {
            Ok(()) => Res::Unit,
            Err(e) => Res::Err(e.to_string()),
        }
    }
    pub fn wait(&self) -> Res {
        let r = match self {
            H::S(x) => x.wait(),
            H::A(x) => b(x.wait()),
        };
        match r {
            Ok(()) => Res::Unit,
            Err(e) => Res::Err(e.to_string()),
        }
    }
    pub fn close(&self) -> Res {
        let r = match self {
            H::S(x) => x.close(),
            H::A(x) => b(x.close()),
        };
        match r {
            Ok(()) => Res::Unit,
            Err(e) => Res::Err(e.to_string()),
        }
    }
    pub fn update_max_cost(&self, m: i64) {
        match self {
            H::S(x) => x.update_max_cost(m),
            H::A(x) => x.update_max_cost(m),
        }
    }
    pub fn max_cost(&self) -> i64 {
        match self {
            H::S(x) => x.max_cost(),
            H::A(x) => x.max_cost(),
        }
    }
    pub fn len(&self) -> usize {
        match self {
            H::S(x) => x.len(),
            H::A(x) => x.len(),
        }
    }
    pub fn estimate(&self, h: u64) -> i64 {
        match self {
            H::S(x) => x.verif_estimate(h),
            H::A(x) => x.verif_estimate(h),
        }
    }
    pub fn item_size(&self) -> usize {
        match self {
            H::S(x) => x.verif_item_size(),
            H::A(x) => x.verif_item_size(),
        }
    }
    fn metrics(&self) -> Arc<stretto::Metrics> {
        match self {
            H::S(x) => x.metrics.clone(),
            H::A(x) => x.metrics.clone(),
        }
    }
    pub fn metrics_snap(&self) -> Option<MetricsSnap> {
        let m = self.metrics();
        if !m.is_op() {
            return None;
        }
        let life = m.life_expectancy_seconds().unwrap();
        let disp = format!("{}", life);
        let count = disp
            .lines()
            .find_map(|l| l.strip_prefix("Count: ").and_then(|x| x.trim().parse::<i64>().ok()))
            .unwrap_or(-1);
        Some(MetricsSnap {
            hits: m.get_hits().unwrap(),
            misses: m.get_misses().unwrap(),
            keys_added: m.get_keys_added().unwrap(),
            keys_updated: m.get_keys_updated().unwrap(),
            keys_evicted: m.get_keys_evicted().unwrap(),
            cost_added: m.get_cost_added().unwrap(),
            cost_evicted: m.get_cost_evicted().unwrap(),
            sets_dropped: m.get_sets_dropped().unwrap(),
            sets_rejected: m.get_sets_rejected().unwrap(),
            gets_dropped: m.get_gets_dropped().unwrap(),
            gets_kept: m.get_gets_kept().unwrap(),
            ratio_bits: m.ratio().unwrap().to_bits(),
            life_count: count,
            life_display: disp,
        })
    }
    /// Facade snapshot; only called at quiescent points (it takes the locks it reads under).
    pub fn snap(&self, clock: &Arc<Mutex<u64>>, quiescent: bool, idxs: &[u64]) -> Snap {
        let at = tick(clock);
        let (entries, policy, buckets) = match self {
            H::S(x) => (x.verif_entries(), x.verif_policy(), x.verif_buckets()),
            H::A(x) => (x.verif_entries(), x.verif_policy(), x.verif_buckets()),
        };
        Snap {
            at,
            quiescent,
            now_ns: rt::now_ns(),
            entries,
            policy,
            buckets,
            len: self.len(),
            metrics: self.metrics_snap(),
            workers: rt::thread::workers(),
            estimates: idxs.iter().map(|i| (*i, self.estimate(*i))).collect(),
        }
    }
}
