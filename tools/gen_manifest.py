#!/usr/bin/env python3
"""Regenerates /verif/MANIFEST.json (kept valid at all times)."""
import json, subprocess
T = {
 "C01": ("policy state observed under its lock after EVERY policy operation of the real cache, over every operation history up to a depth and every two-client program, under all schedules up to a preemption bound; invariants: used == sum of charges, every admission re-establishes used <= max_cost, oversize never admitted, update_max_cost effective", "§6.1"),
 "C02": ("recorded call/return histories of the real cache (two keys in one shard, writers + reader; two keys forced onto one index hash with TTLs) under all schedules up to a preemption bound and all select choices, checked for value provenance, staleness after remove/clear + quiescence, no roll-back of in-place writes; exact-map comparison for settled histories", "§6.2"),
 "C03": ("exhaustive grid of scripted virtual-time lines (TTL x phase x cleanup interval x neighbour x re-insert) on the real cache with probes at every 250 ms and at deadline +-1 ns, compared with reference deadlines; sub-millisecond TTLs and Duration::MAX; TTL lookups on keys sharing an index hash (slot model)", "§6.3"),
 "C04": ("every operation history up to a depth over inserts with/without TTL, insert_if_present, remove, clear and clock advances, quiescence after every operation, compared step by step with a reference map (nothing lost, refused, evicted or swept early); cost-changing updates on a nearly full cache, zero-charge entries, unsettled histories around clear()", "§6.4"),
 "C05": ("every operation history up to a depth containing TTL inserts, for several cleanup intervals (incl. the default) and clock phases, followed by idle time; physically reclaimed, un-charged and handed to on_evict exactly once by deadline + 1 s + interval, never before the deadline; entries dead on arrival (TTL runs out before the processor applies the insert), negative / zero charges, a client racing the due sweep, lookup guards held across the sweep", "§6.5"),
 "C06": ("two-client programs and unsettled histories at capacity 2 under all schedules up to a preemption bound: resident set == charged set and len() == their number at every quiescent point", "§6.6"),
 "C07": ("exhaustive enumeration of resident sets x cost vectors x popularity vectors x max_cost x incoming (cost, hits) on the real LFUPolicy::add with every sampling round observed; plus, on the real cache, every history up to a depth over warm pre-states with skewed popularity: every sampling round the policy ran must be carried out (victims leave through on_evict, nothing else is evicted, store and policy agree); zero / negative resident charges; two admissions in a row with residents leaving and arriving in between", "§6.7"),
 "C08": ("value-conservation ledger (unique value ids, recording callback) over every unsettled history up to a depth and two-client programs at capacity 2 under all schedules up to a preemption bound", "§6.8"),
 "C09": ("3 validators x every settled history up to a depth compared with a reference map and snapshot identity across vetoes; unsettled histories of insert_if_present racing buffered work (also work that evicts the key first) at preemption bound 1; conditional writes on a key that is dead but not yet swept, and on an absent key whose index hash is shared with such an entry", "§6.9"),
 "C10": ("client histories followed by wait() and immediate lookups / facade snapshot, racing clear/close/other waiters, insert buffer sizes 1/2/8, all schedules up to a preemption bound; a wait() that never returns is a blocked-forever task (deadlock report); TTL inserts (Duration::MAX, dead unswept keys) and the client's own clear() before the barrier, TTL filing racing clear(), a lookup guard held into max_cost() while the sweep is due", "§6.10"),
 "C11": ("prefix . clear . suffix histories (keys re-used with other TTLs, idle time, metrics on/off) not settled around the clear at preemption bound 1-2, settled variants under the exact-map oracle, two-client programs at bound 2, one history per metrics stripe, and a differential: [prefix; clear] + suffix against the same suffix on a never-used cache (sets of observable outcomes must coincide); clear() on residents charged nothing in total; no popularity survives the clear (estimates of key hashes 1, 2^63, u64::MAX)", "§6.11"),
 "C12": ("close races (2-3 closers, close vs insert/remove/clear/lookups, buffered work) followed by every call on the closed cache, lookups flushing batches to the policy worker while another client closes, and drop-without-close programs, all schedules up to a preemption bound, on both flavours (close() is written separately for each); workers must have terminated", "§6.12"),
 "C13": ("every increment/reset/clear sequence up to a length over collision-forcing key alphabets for every counter width in range on the real CountMinRow / CountMinSketch / TinyLFU against exact reference counts; batched recording (TinyLFU::increments) compared with one-by-one recording for every sequence, 10 batch sizes and every width; hot-key workloads (a key recorded far beyond the counter limit within one window); plus, on the real cache, every settled history up to a depth through clear(): no key estimates more than the lookups issued since", "§6.13"),
 "C14": ("(capacity, rate 1e-9 .. 0.99 = 30 .. 1 probes) grid x structured hash families on the real Bloom filter: no false negative after every add for every prefix, emptiness after reset/clear, false-positive count over a fixed probe enumeration and over structured neighbours (hashes differing from an added one only in a few low bits or only in the two top bits)", "§6.14"),
 "C15": ("every lookup sequence up to a length for buffer_items 0..3 with the policy worker as a scheduled task (prompt and lagging), bursts overflowing the 3-batch queue, two clients sharing the ring; accounting kept + dropped == flushed, estimates reflect kept lookups; clear() between the lookups; both flavours (the ring is written separately for each)", "§6.15"),
 "C16": ("costers x ignore_internal_cost x max_cost x every history of inserts / insert_if_present of one key with explicit costs 0/1/5/1000, quiescence between writes: charge == given cost or coster value + internal overhead, callback cost == charged cost, also for evictions and rejections among entries of different costs and for TTL entries charged zero or less reclaimed by the sweep; 5 value types; both flavours", "§6.16"),
 "C17": ("metrics on: every settled history up to a depth with the conservation laws evaluated at every quiescent point, tiny insert buffers (sets_dropped), two-client programs (incl. a racing clear) with the metric stripes as scheduling points, one history per metrics stripe, zero and negative charges (modular cost counters)", "§6.17"),
 "C18": ("all values of the small integer types and boundary sets of the wide ones through TransparentKeyBuilder, String/&str through DefaultKeyBuilder, one DefaultKeyBuilder shared by two threads from its first use under every schedule at preemption bound 2; every settled history up to a depth on a cache whose key builder forces index collisions, against a slot model that tracks deadlines (expired, unswept owners), also with a slot owner that carries the conflict hash 0", "§6.18"),
 "C19": ("the harness corpora of C01-C17 driven through AsyncCache with its processors as scheduler tasks (every polling order and ready-arm choice of select up to the same bounds), plus a differential run of settled corpora on Cache and AsyncCache comparing the sets of observable outcomes", "§6.19"),
 "C20": ("full product of builder parameters (num_counters 1..70, max_cost incl. negative, buffer_size 1/2/8, buffer_items 0/1/2/64, metrics, ignore_internal_cost, cleanup intervals from 1 ns to 2 s) x one fixed 30-operation workload under every scheduling/select choice at bound 0; zero parameters rejected with the matching error; three orders of the builder calls; both flavours", "§6.20"),
}
COMP = {"C13", "C14"}
checks = []
for pid in sorted(T):
    text, ref = T[pid]
    comp = pid in COMP
    checks.append({
        "property_id": pid,
        "quick_cmd": f"./check {pid} --tier quick",
        "thorough_cmd": f"./check {pid} --tier thorough",
        "evidence_file": f"/verif/evidence/{pid}.json",
        "replay_cmd_template": "./check replay {path}",
        "engine": "svcheck",
        "level_claimed": {
            "category": "model_checking",
            "text": ("Bounded exhaustive enumeration on the real code: " + text + ". Coverage (programs, executions = schedules, scheduling steps, distinct outcomes, bounds completed, caps) is measured and reported by every run; exhaustive=false is reported when a cap stopped an exploration."),
            "design_ref": ref,
        },
        "level_note": ("Real component code driven through the cfg-guarded facade stretto::verif; no scheduler involved." if comp else
                       "Trusted base: the dependency models in /verif/rt (parking_lot, crossbeam-channel, wg, async-io, async-channel; DESIGN appendix A, self-checked by ./check setup), sequentially consistent atomics, virtual time, the scheduling-point filter of DESIGN §4.3; complete only within the stated alphabet / depth / preemption bound."),
        "technique": ("bounded exhaustive input/sequence enumeration of the real component against a reference model" if comp else
                      "stateless model checking of the real crate: preemption-bounded depth-first enumeration of all schedules and select/data choices under an own scheduler on the shuttle engine, oracles on recorded traces / reference model"),
    })
commits = subprocess.check_output(["git", "-C", "/repo", "log", "--format=%h %s"]).decode().splitlines()
hooks = [l.split()[0] for l in commits if l.split(" ", 1)[1].startswith("verif hooks")]
m = {
    "version": 1,
    "setup_cmd": "./check setup",
    "hooks": {
        "guard": "transparencies_stretto_verif",
        "enable": "cfg emitted by /verif/wrap/build.rs (cargo:rustc-cfg); the wrapper package /verif/wrap compiles /repo/src/lib.rs itself with [patch.crates-io] shims; /repo/Cargo.toml is untouched",
        "baseline_off_cmd": "cd /repo && cargo test --workspace --no-fail-fast --offline",
        "source_commits": hooks,
        "add_only": True,
    },
    "engines": [{
        "name": "svcheck",
        "path": "/verif/harness",
        "serves_properties": sorted(T),
        "kind_free_text": "stateless model checker for the real crate: own preemption-bounded DFS scheduler (record/replay, data choices, quiescence detection, virtual clock) on the shuttle execution engine (/verif/rt), dependency models patched in through cargo, program generators + trace oracles + reference models (/verif/harness); exhaustive component enumeration for the sequential parts",
    }],
    "checks": checks,
    "notes": "Exit codes: 0 held (only known findings), 1 violation (VIOLATION line + replay file), 2 machinery failure. Genuine defects found by these checks were repaired with 'fix:' commits in /repo and are listed under 'fixed' in /verif/known-findings.json; no open known findings.",
    "not_applicable": [],
}
json.dump(m, open("/verif/MANIFEST.json", "w"), indent=1)
print("manifest written:", len(checks), "checks, hook commits", hooks)
