#!/bin/bash
# usage: tools/round_try.sh <round-suffix e.g. r7> <Cxx>...   runs every seed of a round against the check of its property
set -u
r="$1"; shift
for c in "$@"; do
  if [ -f /tmp/mut/${c}${r}/patch.diff ]; then echo "#### ${c}${r}"; /verif/tools/try_mutant.sh /tmp/mut/${c}${r}/patch.diff quick $c; else echo "#### ${c}${r}: no patch.diff"; fi
done
