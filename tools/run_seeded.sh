#!/bin/bash
# Re-applies every seeded change under /verif/seeded to /repo (one at a time, always reverted) and runs the
# quick check of the property it breaks (plus any extra checks given in meta.json: detected_by keys).
# Prints one line per (seed, check): DETECTED / MISSED.
set -u
cd /verif
if ! git -C /repo diff --quiet; then echo "repo not clean"; exit 2; fi
bak=$(mktemp -d); cp -a evidence/. "$bak"/ 2>/dev/null
trap 'git -C /repo checkout -- . 2>/dev/null; cp -a "$bak"/. evidence/ 2>/dev/null; rm -rf "$bak"; rm -f replays/*.json' EXIT
# optional arguments: property ids (C02 C05 ...) to restrict the run to the seeds of those properties
filter="$*"
for d in seeded/*/; do
  name=$(basename "$d")
  if [ -n "$filter" ]; then case " $filter " in *" ${name:0:3} "*) ;; *) continue;; esac; fi
  checks=$(python3 -c "import json,re;m=json.load(open('$d/meta.json'));print(' '.join(sorted(set([m['property']]+[k.split()[0] for k in m['detected_by'].keys() if re.match(r'C[0-9][0-9]', k)]))))")
  if ! git -C /repo apply --check "/verif/$d/patch.diff" 2>/dev/null; then echo "$name: PATCH DOES NOT APPLY"; continue; fi
  git -C /repo apply "/verif/$d/patch.diff"
  for c in $checks; do
    out=$(./check "$c" --tier quick 2>&1); rc=$?
    cls=$(echo "$out" | grep -A1 "^VIOLATION" | grep -o "class=[a-z0-9-]*" | sort | uniq -c | sort -rn | head -3 | awk '{print $2"("$1")"}' | tr '\n' ' ')
    if [ $rc -eq 1 ]; then echo "$name $c DETECTED $cls"; elif [ $rc -eq 0 ]; then echo "$name $c MISSED"; else echo "$name $c MACHINERY($rc)"; fi
  done
  git -C /repo checkout -- .
done
