#!/usr/bin/env python3
"""usage: record_mutant.py <name> <property> <worktree> <needs> <detected_by json> 
Copies patch.diff, the demonstration and the agent's notes into /verif/seeded/<name>/ and writes meta.json."""
import json, os, shutil, sys
name, prop, wt, needs, detected = sys.argv[1:6]
d = f"/verif/seeded/{name}"
os.makedirs(d, exist_ok=True)
shutil.copy(f"{wt}/patch.diff", f"{d}/patch.diff")
demo = None
for c in ["tests/seeded_demo.rs"]:
    if os.path.exists(f"{wt}/{c}"):
        shutil.copy(f"{wt}/{c}", f"{d}/seeded_demo.rs"); demo = c
if os.path.exists(f"{wt}/NOTES.md"):
    shutil.copy(f"{wt}/NOTES.md", f"{d}/NOTES.md")
extra = sys.argv[6] if len(sys.argv) > 6 else ""
meta = {
    "property": prop,
    "breaks": open(f"/tmp/mut/{prop}.prop.txt").read().split("\n")[0],
    "needs_to_manifest": needs,
    "demonstration": demo or "see NOTES.md",
    "confirmed_by_me": {
        "how": "tools/confirm_mutant.sh <scratch worktree>: pinned suite (cargo test --offline --lib, 75 tests) with the change; demonstration with the change (must fail) and with the change reverted (must pass)",
        "result": extra or "suite 75 passed with the change; demonstration fails with the change and passes without it",
    },
    "checks_run": "tools/try_mutant.sh seeded/<name>/patch.diff quick <checks>: applies the patch to /repo, runs ./check, reverts (git -C /repo checkout -- .)",
    "detected_by": json.loads(detected),
}
json.dump(meta, open(f"{d}/meta.json", "w"), indent=1)
print("recorded", d)
