#!/bin/bash
# usage: tools/try_mutant.sh <patch.diff> <tier> <check>...   applies the seeded change to /repo, runs the checks, reverts
set -u
patch="$1"; tier="$2"; shift 2
cd /verif
if ! git -C /repo diff --quiet; then echo "repo not clean"; exit 2; fi
git -C /repo apply "$patch" || { echo "patch does not apply"; exit 2; }
# evidence written by runs on a mutated tree must not replace the evidence of the unchanged tree
bak=$(mktemp -d); cp -a evidence/. "$bak"/ 2>/dev/null
for c in "$@"; do
  out=$(./check "$c" --tier "$tier" 2>&1); rc=$?
  n=$(echo "$out" | grep -c "^VIOLATION")
  echo "== $c rc=$rc violations_lines=$n :: $(echo "$out" | tail -1 | cut -c1-150)"
  echo "$out" | grep -A1 "^VIOLATION" | grep "class=" | sed -E 's/case=(.{0,90}).*:: / \1 :: /' | cut -c1-330 | head -3
done
git -C /repo checkout -- . 
cp -a "$bak"/. evidence/ 2>/dev/null; rm -rf "$bak"; rm -f replays/*.json
git -C /repo status --short | head -3
