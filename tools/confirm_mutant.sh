#!/bin/bash
# usage: tools/confirm_mutant.sh <worktree>   re-confirms a seeded change independently:
#  (1) with the change: pinned suite passes, demo fails; (2) without: demo passes.
set -u
w="$1"; cd "$w" || exit 2
export CARGO_NET_OFFLINE=true CARGO_TARGET_DIR="$w/target"
feat="${3:-}"
demo_cmd="timeout 600 cargo test --offline $feat --test seeded_demo"
[ -f tests/seeded_demo.rs ] || demo_cmd="timeout 600 cargo test --offline --lib ${2:-seeded}"
echo "## suite with change"; cargo test --offline --lib -- --skip c13_demo --skip c14_demo 2>&1 | grep -E "^test result|FAILED" | head -5
echo "## demo with change (expect failure)"; $demo_cmd 2>&1 | grep -E "^test result|^error" | head -3
git apply -R patch.diff || { echo "cannot revert"; exit 2; }
echo "## demo without change (expect pass)"; $demo_cmd 2>&1 | grep -E "^test result|^error" | head -3
git apply patch.diff
echo "## done $w"
