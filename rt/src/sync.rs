//! `parking_lot::{Mutex, RwLock}` models.
//!
//! * `Mutex`: non-poisoning; when it is released every waiter becomes runnable and the scheduler
//!   decides who wins (parking_lot makes no fairness promise a program may rely on).
//! * `RwLock`: many readers or one writer; **writer-preferring** like parking_lot: once a writer
//!   has started waiting, new `read()` calls block (also from a task that already holds a read
//!   guard: the documented self-deadlock); `read_recursive()` does not.
//! * The acquire is the visible operation: one scheduling point *before* it (if the lock is
//!   "loud"); releases are not scheduling points.
//! * Shard locks of `store.rs` (recognised by their creation site) are loud only for the shards
//!   the harness declared (see DESIGN §4.3); quiet locks still block correctly when contended.

use crate::kernel::{self, Shared};
use crate::world::with_world;
use std::cell::UnsafeCell;
use std::fmt;
use std::ops::{Deref, DerefMut};

fn classify_new(loc: &std::panic::Location<'_>) -> bool {
    if loc.file().ends_with("store.rs") {
        with_world(|w| {
            let i = w.store_locks_created % 256;
            w.store_locks_created += 1;
            match &w.filter.loud_shards {
                None => true,
                Some(v) => v.contains(&i),
            }
        })
    } else {
        true
    }
}

// ------------------------------------------------------------------------------------------------
// Mutex

#[derive(Default)]
struct MState {
    held: bool,
    waiters: Vec<usize>,
}

pub struct Mutex<T: ?Sized> {
    st: Shared<MState>,
    loud: bool,
    data: UnsafeCell<T>,
}
unsafe impl<T: ?Sized + Send> Send for Mutex<T> {}
unsafe impl<T: ?Sized + Send> Sync for Mutex<T> {}

pub struct MutexGuard<'a, T: ?Sized> {
    m: &'a Mutex<T>,
}

impl<T> Mutex<T> {
    #[track_caller]
    pub fn new(t: T) -> Self {
        Mutex { st: Shared::new(MState::default()), loud: true, data: UnsafeCell::new(t) }
    }
    pub fn into_inner(self) -> T {
        self.data.into_inner()
    }
}
impl<T: ?Sized> Mutex<T> {
    pub fn lock(&self) -> MutexGuard<'_, T> {
        if self.loud {
            kernel::point();
        }
        loop {
            let model = kernel::in_model();
            let ok = self.st.with(|s| {
                if !s.held {
                    s.held = true;
                    true
                } else {
                    if model {
                        s.waiters.push(kernel::me());
                    }
                    false
                }
            });
            if ok {
                break;
            }
            kernel::block();
        }
        MutexGuard { m: self }
    }
    /// Timed variants (parking_lot's `try_lock_for` / `try_*_for` / `try_*_until`): the attempt is
    /// repeated, yielding to the scheduler in between, until it succeeds or the VIRTUAL clock has
    /// passed the deadline (time only passes when a harness advances it).
    pub fn try_lock_for(&self, d: std::time::Duration) -> Option<MutexGuard<'_, T>> {
        let deadline = crate::world::now_ns() + d.as_nanos();
        loop {
            if let Some(g) = self.try_lock() {
                return Some(g);
            }
            if crate::world::now_ns() >= deadline {
                return None;
            }
            crate::thread::yield_now();
        }
    }
    pub fn try_lock(&self) -> Option<MutexGuard<'_, T>> {
        if self.loud {
            kernel::point();
        }
        let ok = self.st.with(|s| {
            if !s.held {
                s.held = true;
                true
            } else {
                false
            }
        });
        if ok {
            Some(MutexGuard { m: self })
        } else {
            None
        }
    }
    pub fn is_locked(&self) -> bool {
        self.st.with(|s| s.held)
    }
    pub fn get_mut(&mut self) -> &mut T {
        self.data.get_mut()
    }
    pub fn data_ptr(&self) -> *mut T {
        self.data.get()
    }
    /// # Safety
    /// Same contract as parking_lot's.
    pub unsafe fn force_unlock(&self) {
        self.unlock();
    }
    fn unlock(&self) {
        let ws = self.st.with(|s| {
            s.held = false;
            std::mem::take(&mut s.waiters)
        });
        for w in ws {
            kernel::unblock(w);
        }
    }
}
impl<T: ?Sized> Drop for MutexGuard<'_, T> {
    fn drop(&mut self) {
        crate::obs::on_unlock(self.m.data.get() as *const ());
        self.m.unlock();
    }
}
impl<T: ?Sized> Deref for MutexGuard<'_, T> {
    type Target = T;
    fn deref(&self) -> &T {
        unsafe { &*self.m.data.get() }
    }
}
impl<T: ?Sized> DerefMut for MutexGuard<'_, T> {
    fn deref_mut(&mut self) -> &mut T {
        unsafe { &mut *self.m.data.get() }
    }
}
impl<T: Default> Default for Mutex<T> {
    fn default() -> Self {
        Mutex::new(T::default())
    }
}
impl<T> From<T> for Mutex<T> {
    fn from(t: T) -> Self {
        Mutex::new(t)
    }
}
impl<T: ?Sized> fmt::Debug for Mutex<T> {
    fn fmt(&self, f: &mut fmt::Formatter<'_>) -> fmt::Result {
        f.write_str("Mutex { .. }")
    }
}
impl<T: ?Sized + fmt::Debug> fmt::Debug for MutexGuard<'_, T> {
    fn fmt(&self, f: &mut fmt::Formatter<'_>) -> fmt::Result {
        fmt::Debug::fmt(&**self, f)
    }
}

// ------------------------------------------------------------------------------------------------
// RwLock

#[derive(Default)]
struct RwState {
    readers: usize,
    writer: bool,
    writers_waiting: usize,
    waiters: Vec<usize>,
}

pub struct RwLock<T: ?Sized> {
    st: Shared<RwState>,
    loud: bool,
    data: UnsafeCell<T>,
}
unsafe impl<T: ?Sized + Send> Send for RwLock<T> {}
unsafe impl<T: ?Sized + Send + Sync> Sync for RwLock<T> {}

pub struct RwLockReadGuard<'a, T: ?Sized> {
    l: &'a RwLock<T>,
}
pub struct RwLockWriteGuard<'a, T: ?Sized> {
    l: &'a RwLock<T>,
}

impl<T> RwLock<T> {
    #[track_caller]
    pub fn new(t: T) -> Self {
        let loud = classify_new(std::panic::Location::caller());
        RwLock { st: Shared::new(RwState::default()), loud, data: UnsafeCell::new(t) }
    }
    pub fn into_inner(self) -> T {
        self.data.into_inner()
    }
}
impl<T: ?Sized> RwLock<T> {
    fn contended(&self) {
        if !self.loud {
            with_world(|w| w.quiet_contended += 1);
        }
    }
    fn read_in(&self, recursive: bool) -> RwLockReadGuard<'_, T> {
        if self.loud {
            kernel::point();
        }
        loop {
            let model = kernel::in_model();
            let ok = self.st.with(|s| {
                if !s.writer && (recursive || s.writers_waiting == 0) {
                    s.readers += 1;
                    true
                } else {
                    if model {
                        s.waiters.push(kernel::me());
                    }
                    false
                }
            });
            if ok {
                break;
            }
            self.contended();
            kernel::block();
        }
        RwLockReadGuard { l: self }
    }
    pub fn read(&self) -> RwLockReadGuard<'_, T> {
        self.read_in(false)
    }
    pub fn read_recursive(&self) -> RwLockReadGuard<'_, T> {
        self.read_in(true)
    }
    pub fn try_read(&self) -> Option<RwLockReadGuard<'_, T>> {
        if self.loud {
            kernel::point();
        }
        let ok = self.st.with(|s| {
            if !s.writer && s.writers_waiting == 0 {
                s.readers += 1;
                true
            } else {
                false
            }
        });
        if ok {
            Some(RwLockReadGuard { l: self })
        } else {
            None
        }
    }
    pub fn write(&self) -> RwLockWriteGuard<'_, T> {
        if self.loud {
            kernel::point();
        }
        let mut registered = false;
        loop {
            let model = kernel::in_model();
            let ok = self.st.with(|s| {
                if !s.writer && s.readers == 0 {
                    s.writer = true;
                    if registered {
                        s.writers_waiting -= 1;
                    }
                    true
                } else {
                    if !registered {
                        s.writers_waiting += 1;
                    }
                    if model {
                        s.waiters.push(kernel::me());
                    }
                    false
                }
            });
            if ok {
                break;
            }
            registered = true;
            self.contended();
            kernel::block();
        }
        RwLockWriteGuard { l: self }
    }
    pub fn try_write_for(&self, d: std::time::Duration) -> Option<RwLockWriteGuard<'_, T>> {
        let deadline = crate::world::now_ns() + d.as_nanos();
        loop {
            if let Some(g) = self.try_write() {
                return Some(g);
            }
            if crate::world::now_ns() >= deadline {
                return None;
            }
            crate::thread::yield_now();
        }
    }
    pub fn try_read_for(&self, d: std::time::Duration) -> Option<RwLockReadGuard<'_, T>> {
        let deadline = crate::world::now_ns() + d.as_nanos();
        loop {
            if let Some(g) = self.try_read() {
                return Some(g);
            }
            if crate::world::now_ns() >= deadline {
                return None;
            }
            crate::thread::yield_now();
        }
    }
    pub fn try_write(&self) -> Option<RwLockWriteGuard<'_, T>> {
        if self.loud {
            kernel::point();
        }
        let ok = self.st.with(|s| {
            if !s.writer && s.readers == 0 {
                s.writer = true;
                true
            } else {
                false
            }
        });
        if ok {
            Some(RwLockWriteGuard { l: self })
        } else {
            None
        }
    }
    pub fn is_locked(&self) -> bool {
        self.st.with(|s| s.writer || s.readers > 0)
    }
    pub fn is_locked_exclusive(&self) -> bool {
        self.st.with(|s| s.writer)
    }
    pub fn get_mut(&mut self) -> &mut T {
        self.data.get_mut()
    }
    pub fn data_ptr(&self) -> *mut T {
        self.data.get()
    }
    fn wake_all(&self, f: impl FnOnce(&mut RwState)) {
        let ws = self.st.with(|s| {
            f(s);
            std::mem::take(&mut s.waiters)
        });
        for w in ws {
            kernel::unblock(w);
        }
    }
}
impl<T: ?Sized> Drop for RwLockReadGuard<'_, T> {
    fn drop(&mut self) {
        self.l.wake_all(|s| s.readers -= 1);
    }
}
impl<T: ?Sized> Drop for RwLockWriteGuard<'_, T> {
    fn drop(&mut self) {
        self.l.wake_all(|s| s.writer = false);
    }
}
impl<T: ?Sized> Deref for RwLockReadGuard<'_, T> {
    type Target = T;
    fn deref(&self) -> &T {
        unsafe { &*self.l.data.get() }
    }
}
impl<T: ?Sized> Deref for RwLockWriteGuard<'_, T> {
    type Target = T;
    fn deref(&self) -> &T {
        unsafe { &*self.l.data.get() }
    }
}
impl<T: ?Sized> DerefMut for RwLockWriteGuard<'_, T> {
    fn deref_mut(&mut self) -> &mut T {
        unsafe { &mut *self.l.data.get() }
    }
}
impl<T: Default> Default for RwLock<T> {
    fn default() -> Self {
        RwLock::new(T::default())
    }
}
impl<T> From<T> for RwLock<T> {
    fn from(t: T) -> Self {
        RwLock::new(t)
    }
}
impl<T: ?Sized> fmt::Debug for RwLock<T> {
    fn fmt(&self, f: &mut fmt::Formatter<'_>) -> fmt::Result {
        f.write_str("RwLock { .. }")
    }
}
impl<T: ?Sized + fmt::Debug> fmt::Debug for RwLockReadGuard<'_, T> {
    fn fmt(&self, f: &mut fmt::Formatter<'_>) -> fmt::Result {
        fmt::Debug::fmt(&**self, f)
    }
}
impl<T: ?Sized + fmt::Debug> fmt::Debug for RwLockWriteGuard<'_, T> {
    fn fmt(&self, f: &mut fmt::Formatter<'_>) -> fmt::Result {
        fmt::Debug::fmt(&**self, f)
    }
}

// ------------------------------------------------------------------------------------------------
// Condvar (not used by stretto today; provided so that a change that starts using it still builds)

#[derive(Default)]
pub struct Condvar {
    waiters: Shared<Vec<usize>>,
}
impl Condvar {
    pub fn new() -> Self {
        Condvar::default()
    }
    pub fn wait<T: ?Sized>(&self, guard: &mut MutexGuard<'_, T>) {
        let m = guard.m;
        self.waiters.with(|w| w.push(kernel::me()));
        m.unlock();
        kernel::block();
        // re-acquire
        loop {
            let ok = m.st.with(|s| {
                if !s.held {
                    s.held = true;
                    true
                } else {
                    s.waiters.push(kernel::me());
                    false
                }
            });
            if ok {
                break;
            }
            kernel::block();
        }
    }
    pub fn notify_one(&self) -> bool {
        kernel::point();
        let w = self.waiters.with(|w| if w.is_empty() { None } else { Some(w.remove(0)) });
        match w {
            Some(t) => {
                kernel::unblock(t);
                true
            }
            None => false,
        }
    }
    pub fn notify_all(&self) -> usize {
        kernel::point();
        let ws = self.waiters.with(std::mem::take);
        let n = ws.len();
        for t in ws {
            kernel::unblock(t);
        }
        n
    }
}
impl fmt::Debug for Condvar {
    fn fmt(&self, f: &mut fmt::Formatter<'_>) -> fmt::Result {
        f.write_str("Condvar { .. }")
    }
}
