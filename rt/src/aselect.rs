//! Replacement for `futures::select!` (which picks pseudo-randomly among the ready arms with a
//! thread-local RNG that survives executions).  Same grammar for the forms stretto uses
//! (`pat = future_expr => body`, `default => body`, optional commas after block bodies).
//!
//! Every poll of the select is one scheduling point followed by: *peek* every arm (the model's own
//! futures report whether they would complete, without side effect), then an enumerated data
//! choice among the ready arms, then a real poll of the chosen arm.  So the set of outcomes
//! explored at a poll is exactly the set `futures::select!` can produce.

use crate::kernel;
use std::cell::Cell;
use std::future::Future;
use std::pin::Pin;
use std::task::{Context, Poll, Waker};

thread_local! {
    static PEEKING: Cell<bool> = const { Cell::new(false) };
    static PEEK_READY: Cell<bool> = const { Cell::new(false) };
    static PEEK_DEAD: Cell<bool> = const { Cell::new(false) };
    static NO_POINT: Cell<bool> = const { Cell::new(false) };
}

/// Called by model futures at the top of `poll`: `Some(())` means "peek mode, report and return
/// Pending".
#[inline]
pub fn peeking() -> bool {
    PEEKING.with(|p| p.get())
}
#[inline]
pub fn report(ready: bool) {
    PEEK_READY.with(|p| p.set(ready));
}
/// the arm is ready only because its channel is closed and empty (it will yield an error)
#[inline]
pub fn report_dead(dead: bool) {
    PEEK_DEAD.with(|p| p.set(dead));
}
/// Scheduling point at the first poll of a model future, unless a select drives the poll.
#[inline]
pub fn op_point() {
    if !NO_POINT.with(|p| p.get()) {
        kernel::point();
    }
}

pub enum Peek<T> {
    Ready(T),
    /// (ready, dead)
    Hint(bool, bool),
}

pub fn enter() {
    kernel::point();
}

pub fn peek<F: Future + Unpin>(f: Pin<&mut F>) -> Peek<F::Output> {
    PEEKING.with(|p| p.set(true));
    PEEK_READY.with(|p| p.set(false));
    PEEK_DEAD.with(|p| p.set(false));
    let mut cx = Context::from_waker(Waker::noop());
    let r = f.poll(&mut cx);
    PEEKING.with(|p| p.set(false));
    match r {
        // a future that is not one of the model's: it completed, the arm has fired
        Poll::Ready(v) => Peek::Ready(v),
        Poll::Pending => Peek::Hint(PEEK_READY.with(|p| p.get()), PEEK_DEAD.with(|p| p.get())),
    }
}

pub fn real<F: Future + Unpin>(f: Pin<&mut F>, cx: &mut Context<'_>) -> Poll<F::Output> {
    NO_POINT.with(|p| p.set(true));
    let r = f.poll(cx);
    NO_POINT.with(|p| p.set(false));
    r
}

thread_local! {
    /// fairness for closed-channel spins, as in `chan::run_select`
    static STREAK: std::cell::RefCell<std::collections::HashMap<usize, Vec<usize>>> = std::cell::RefCell::new(Default::default());
}
pub(crate) fn reset_streaks() {
    STREAK.with(|s| s.borrow_mut().clear());
}

pub fn pick(ready: &[bool], dead: &[bool]) -> Option<usize> {
    let mut idx: Vec<usize> = (0..ready.len()).filter(|i| ready[*i]).collect();
    if idx.is_empty() {
        if kernel::in_model() {
            let me = kernel::me();
            STREAK.with(|s| {
                s.borrow_mut().remove(&me);
            });
        }
        return None;
    }
    let model = kernel::in_model();
    if model && idx.len() > 1 {
        let me = kernel::me();
        let fired: Vec<usize> = STREAK.with(|s| s.borrow().get(&me).cloned().unwrap_or_default());
        if !fired.is_empty() {
            let fresh: Vec<usize> = idx.iter().copied().filter(|i| !fired.contains(i)).collect();
            if !fresh.is_empty() {
                idx = fresh;
            } else {
                STREAK.with(|s| s.borrow_mut().remove(&me));
            }
        }
    }
    if idx.len() > 1 {
        crate::world::with_world(|w| w.select_ties += 1);
    }
    let i = idx[crate::sched::choose(idx.len())];
    if model {
        let me = kernel::me();
        if dead[i] {
            STREAK.with(|s| s.borrow_mut().entry(me).or_default().push(i));
            // a task that keeps receiving errors from closed channels is spinning: make it visible
            kernel::yield_now();
        } else {
            STREAK.with(|s| {
                s.borrow_mut().remove(&me);
            });
        }
    }
    Some(i)
}

#[macro_export]
macro_rules! aselect {
    ($($t:tt)*) => { $crate::__asel_parse!(@p () () $($t)*) };
}

#[doc(hidden)]
#[macro_export]
macro_rules! __asel_parse {
    (@p ($($arms:tt)*) () default => $b:block , $($rest:tt)*) => { $crate::__asel_parse!(@p ($($arms)*) (($b)) $($rest)*) };
    (@p ($($arms:tt)*) () default => $b:block $($rest:tt)*) => { $crate::__asel_parse!(@p ($($arms)*) (($b)) $($rest)*) };
    (@p ($($arms:tt)*) () default => $b:expr , $($rest:tt)*) => { $crate::__asel_parse!(@p ($($arms)*) (($b)) $($rest)*) };
    (@p ($($arms:tt)*) () default => $b:expr) => { $crate::__asel_parse!(@p ($($arms)*) (($b))) };
    (@p ($($arms:tt)*) ($($d:tt)*) complete => $b:block , $($rest:tt)*) => { $crate::__asel_parse!(@p ($($arms)*) ($($d)*) $($rest)*) };
    (@p ($($arms:tt)*) ($($d:tt)*) complete => $b:block $($rest:tt)*) => { $crate::__asel_parse!(@p ($($arms)*) ($($d)*) $($rest)*) };
    (@p ($($arms:tt)*) ($($d:tt)*) complete => $b:expr , $($rest:tt)*) => { $crate::__asel_parse!(@p ($($arms)*) ($($d)*) $($rest)*) };
    (@p ($($arms:tt)*) ($($d:tt)*) complete => $b:expr) => { $crate::__asel_parse!(@p ($($arms)*) ($($d)*)) };
    (@p ($($arms:tt)*) ($($d:tt)*) $p:pat = $e:expr => $b:block , $($rest:tt)*) => { $crate::__asel_parse!(@p ($($arms)* (($p) ($e) ($b))) ($($d)*) $($rest)*) };
    (@p ($($arms:tt)*) ($($d:tt)*) $p:pat = $e:expr => $b:block $($rest:tt)*) => { $crate::__asel_parse!(@p ($($arms)* (($p) ($e) ($b))) ($($d)*) $($rest)*) };
    (@p ($($arms:tt)*) ($($d:tt)*) $p:pat = $e:expr => $b:expr , $($rest:tt)*) => { $crate::__asel_parse!(@p ($($arms)* (($p) ($e) ($b))) ($($d)*) $($rest)*) };
    (@p ($($arms:tt)*) ($($d:tt)*) $p:pat = $e:expr => $b:expr) => { $crate::__asel_parse!(@p ($($arms)* (($p) ($e) ($b))) ($($d)*)) };
    (@p ($($arms:tt)*) ($($d:tt)*)) => {
        $crate::__asel_zip!(() ($($arms)*)
            ((__f0 __r0 0usize) (__f1 __r1 1usize) (__f2 __r2 2usize) (__f3 __r3 3usize)
             (__f4 __r4 4usize) (__f5 __r5 5usize) (__f6 __r6 6usize) (__f7 __r7 7usize))
            ($($d)*))
    };
}

#[doc(hidden)]
#[macro_export]
macro_rules! __asel_zip {
    (($($done:tt)*) () ($($ids:tt)*) ($($d:tt)*)) => { $crate::__asel_emit!(($($done)*) ($($d)*)) };
    (($($done:tt)*) (($p:tt $e:tt $b:tt) $($arms:tt)*) (($f:ident $r:ident $i:expr) $($ids:tt)*) ($($d:tt)*)) => {
        $crate::__asel_zip!(($($done)* ($p $e $b $f $r $i)) ($($arms)*) ($($ids)*) ($($d)*))
    };
}

#[doc(hidden)]
#[macro_export]
macro_rules! __asel_emit {
    (( $( (($p:pat) ($e:expr) ($b:expr) $f:ident $r:ident $i:expr) )+ ) ($(($d:expr))?)) => {{
        $( let mut $r = ::core::option::Option::None; )+
        #[allow(unused_mut)]
        let mut __has_default = false;
        $( let _ = stringify!($d); __has_default = true; )?
        let __which: usize = {
            $( let mut $f = $e; )+
            ::std::future::poll_fn(|__cx: &mut ::core::task::Context<'_>| -> ::core::task::Poll<usize> {
                $crate::aselect::enter();
                let mut __ready = [false; 8];
                let mut __dead = [false; 8];
                $(
                    match $crate::aselect::peek(::core::pin::Pin::new(&mut $f)) {
                        $crate::aselect::Peek::Ready(__v) => { $r = ::core::option::Option::Some(__v); return ::core::task::Poll::Ready($i); }
                        $crate::aselect::Peek::Hint(__h, __d) => { __ready[$i] = __h; __dead[$i] = __d; }
                    }
                )+
                match $crate::aselect::pick(&__ready, &__dead) {
                    ::core::option::Option::Some(__k) => {
                        $(
                            if __k == $i {
                                match $crate::aselect::real(::core::pin::Pin::new(&mut $f), __cx) {
                                    ::core::task::Poll::Ready(__v) => { $r = ::core::option::Option::Some(__v); return ::core::task::Poll::Ready($i); }
                                    ::core::task::Poll::Pending => panic!("stretto-verif-rt: select arm reported ready but was pending"),
                                }
                            }
                        )+
                        unreachable!()
                    }
                    ::core::option::Option::None => {
                        if __has_default {
                            return ::core::task::Poll::Ready(usize::MAX);
                        }
                        $(
                            if let ::core::task::Poll::Ready(__v) = $crate::aselect::real(::core::pin::Pin::new(&mut $f), __cx) {
                                $r = ::core::option::Option::Some(__v);
                                return ::core::task::Poll::Ready($i);
                            }
                        )+
                        ::core::task::Poll::Pending
                    }
                }
            }).await
        };
        $( if __which == $i { let $p = $r.take().unwrap(); $b } else )+ {
            $crate::__asel_default!($(($d))?)
        }
    }};
}

#[doc(hidden)]
#[macro_export]
macro_rules! __asel_default {
    (($d:expr)) => { $d };
    () => { unreachable!("select! without default completed without an arm") };
}

/// helper for plain futures
pub struct Ready<T>(pub Option<T>);
impl<T: Unpin> Future for Ready<T> {
    type Output = T;
    fn poll(mut self: Pin<&mut Self>, _: &mut Context<'_>) -> Poll<T> {
        Poll::Ready(self.0.take().unwrap())
    }
}
