//! stretto-verif-rt: the exploration substrate.
//!
//! Everything in here runs on top of the shuttle execution engine: every task (client thread,
//! cache processor, policy processor, async background task) is a shuttle task, i.e. a coroutine
//! on ONE OS thread of which exactly one runs at a time.  All state in this crate is therefore
//! kept in plain `RefCell`s / thread-locals; "blocking" means `Task::block` + `switch`, "waking"
//! means `Task::unblock`.  The scheduler (`sched`) is ours: preemption-bounded depth-first
//! enumeration of all schedules and all data choices, with record / replay.
//!
//! One explorer runs per OS thread; several OS threads explore different programs in parallel and
//! share nothing.

pub mod achan;
pub mod aselect;
pub mod atomic;
pub mod chan;
pub mod clock;
pub mod kernel;
pub mod obs;
pub mod sched;
pub mod sync;
pub mod thread;
pub mod timer;
pub mod wg;
pub mod world;

pub use clock::{SystemTime, UNIX_EPOCH};
pub use sched::{choose, explore, replay, ExploreCfg, ExploreOut, Mode, Violation};
pub use world::{advance, finish_mode, now_ns, setup_mode, settle, violation, with_world};
