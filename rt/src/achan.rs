//! `async-channel` 2.x model (bounded / unbounded MPMC, close semantics), cooperating with
//! `aselect` (readiness peek) and with scheduling points before every channel operation.

use crate::aselect;
use crate::kernel::{self, Shared};
use std::collections::VecDeque;
use std::fmt;
use std::future::Future;
use std::pin::Pin;
use std::sync::Arc;
use std::task::{Context, Poll, Waker};

#[derive(PartialEq, Eq, Clone, Copy)]
pub struct SendError<T>(pub T);
impl<T> SendError<T> {
    pub fn into_inner(self) -> T {
        self.0
    }
}
impl<T> fmt::Debug for SendError<T> {
    fn fmt(&self, f: &mut fmt::Formatter<'_>) -> fmt::Result {
        write!(f, "SendError(..)")
    }
}
impl<T> fmt::Display for SendError<T> {
    fn fmt(&self, f: &mut fmt::Formatter<'_>) -> fmt::Result {
        write!(f, "sending into a closed channel")
    }
}
impl<T> std::error::Error for SendError<T> {}

#[derive(PartialEq, Eq, Clone, Copy)]
pub enum TrySendError<T> {
    Full(T),
    Closed(T),
}
impl<T> TrySendError<T> {
    pub fn into_inner(self) -> T {
        match self {
            TrySendError::Full(t) | TrySendError::Closed(t) => t,
        }
    }
    pub fn is_full(&self) -> bool {
        matches!(self, TrySendError::Full(_))
    }
    pub fn is_closed(&self) -> bool {
        matches!(self, TrySendError::Closed(_))
    }
}
impl<T> fmt::Debug for TrySendError<T> {
    fn fmt(&self, f: &mut fmt::Formatter<'_>) -> fmt::Result {
        match self {
            TrySendError::Full(..) => write!(f, "Full(..)"),
            TrySendError::Closed(..) => write!(f, "Closed(..)"),
        }
    }
}
impl<T> fmt::Display for TrySendError<T> {
    fn fmt(&self, f: &mut fmt::Formatter<'_>) -> fmt::Result {
        match self {
            TrySendError::Full(..) => write!(f, "sending into a full channel"),
            TrySendError::Closed(..) => write!(f, "sending into a closed channel"),
        }
    }
}
impl<T> std::error::Error for TrySendError<T> {}

#[derive(PartialEq, Eq, Clone, Copy, Debug)]
pub struct RecvError;
impl fmt::Display for RecvError {
    fn fmt(&self, f: &mut fmt::Formatter<'_>) -> fmt::Result {
        write!(f, "receiving from an empty and closed channel")
    }
}
impl std::error::Error for RecvError {}

#[derive(PartialEq, Eq, Clone, Copy, Debug)]
pub enum TryRecvError {
    Empty,
    Closed,
}
impl TryRecvError {
    pub fn is_empty(&self) -> bool {
        matches!(self, TryRecvError::Empty)
    }
    pub fn is_closed(&self) -> bool {
        matches!(self, TryRecvError::Closed)
    }
}
impl fmt::Display for TryRecvError {
    fn fmt(&self, f: &mut fmt::Formatter<'_>) -> fmt::Result {
        match self {
            TryRecvError::Empty => write!(f, "receiving from an empty channel"),
            TryRecvError::Closed => write!(f, "receiving from an empty and closed channel"),
        }
    }
}
impl std::error::Error for TryRecvError {}

struct St<T> {
    q: VecDeque<T>,
    cap: Option<usize>,
    closed: bool,
    senders: usize,
    receivers: usize,
    recv_wakers: Vec<Waker>,
    send_wakers: Vec<Waker>,
    recv_blocked: Vec<usize>,
    send_blocked: Vec<usize>,
}
struct Ch<T> {
    st: Shared<St<T>>,
}
impl<T> Ch<T> {
    fn wake_recv(&self) {
        let (ws, ts) = self.st.with(|s| (std::mem::take(&mut s.recv_wakers), std::mem::take(&mut s.recv_blocked)));
        for w in ws {
            w.wake();
        }
        for t in ts {
            kernel::unblock(t);
        }
    }
    fn wake_send(&self) {
        let (ws, ts) = self.st.with(|s| (std::mem::take(&mut s.send_wakers), std::mem::take(&mut s.send_blocked)));
        for w in ws {
            w.wake();
        }
        for t in ts {
            kernel::unblock(t);
        }
    }
    fn close(&self) -> bool {
        let was = self.st.with(|s| std::mem::replace(&mut s.closed, true));
        if !was {
            self.wake_recv();
            self.wake_send();
        }
        !was
    }
    fn try_send(&self, msg: T) -> Result<(), TrySendError<T>> {
        let r = self.st.with(|s| {
            if s.closed {
                Err(TrySendError::Closed(msg))
            } else if matches!(s.cap, Some(c) if s.q.len() >= c) {
                Err(TrySendError::Full(msg))
            } else {
                s.q.push_back(msg);
                Ok(())
            }
        });
        if r.is_ok() {
            self.wake_recv();
        }
        r
    }
    fn try_recv(&self) -> Result<T, TryRecvError> {
        let r = self.st.with(|s| match s.q.pop_front() {
            Some(m) => Ok(m),
            None => {
                if s.closed {
                    Err(TryRecvError::Closed)
                } else {
                    Err(TryRecvError::Empty)
                }
            }
        });
        if r.is_ok() {
            self.wake_send();
        }
        r
    }
}

pub struct Sender<T> {
    ch: Arc<Ch<T>>,
}
pub struct Receiver<T> {
    ch: Arc<Ch<T>>,
}
unsafe impl<T: std::marker::Send> std::marker::Send for Sender<T> {}
unsafe impl<T: std::marker::Send> Sync for Sender<T> {}
unsafe impl<T: std::marker::Send> std::marker::Send for Receiver<T> {}
unsafe impl<T: std::marker::Send> Sync for Receiver<T> {}

fn mk<T>(cap: Option<usize>) -> (Sender<T>, Receiver<T>) {
    let ch = Arc::new(Ch {
        st: Shared::new(St {
            q: VecDeque::new(),
            cap,
            closed: false,
            senders: 1,
            receivers: 1,
            recv_wakers: Vec::new(),
            send_wakers: Vec::new(),
            recv_blocked: Vec::new(),
            send_blocked: Vec::new(),
        }),
    });
    (Sender { ch: ch.clone() }, Receiver { ch })
}
pub fn bounded<T>(cap: usize) -> (Sender<T>, Receiver<T>) {
    // as the real crate (async-channel 2.x `bounded`): a zero capacity is a programming error
    assert!(cap > 0, "capacity cannot be zero");
    mk(Some(cap))
}
pub fn unbounded<T>() -> (Sender<T>, Receiver<T>) {
    mk(None)
}

macro_rules! common {
    ($t:ident) => {
        impl<T> $t<T> {
            pub fn close(&self) -> bool {
                kernel::point();
                self.ch.close()
            }
            pub fn is_closed(&self) -> bool {
                self.ch.st.with(|s| s.closed)
            }
            pub fn is_empty(&self) -> bool {
                self.ch.st.with(|s| s.q.is_empty())
            }
            pub fn is_full(&self) -> bool {
                self.ch.st.with(|s| matches!(s.cap, Some(c) if s.q.len() >= c))
            }
            pub fn len(&self) -> usize {
                self.ch.st.with(|s| s.q.len())
            }
            pub fn capacity(&self) -> Option<usize> {
                self.ch.st.with(|s| s.cap)
            }
            pub fn receiver_count(&self) -> usize {
                self.ch.st.with(|s| s.receivers)
            }
            pub fn sender_count(&self) -> usize {
                self.ch.st.with(|s| s.senders)
            }
        }
        impl<T> fmt::Debug for $t<T> {
            fn fmt(&self, f: &mut fmt::Formatter<'_>) -> fmt::Result {
                write!(f, concat!(stringify!($t), " {{ .. }}"))
            }
        }
    };
}
common!(Sender);
common!(Receiver);

impl<T> Clone for Sender<T> {
    fn clone(&self) -> Self {
        self.ch.st.with(|s| s.senders += 1);
        Sender { ch: self.ch.clone() }
    }
}
impl<T> Clone for Receiver<T> {
    fn clone(&self) -> Self {
        self.ch.st.with(|s| s.receivers += 1);
        Receiver { ch: self.ch.clone() }
    }
}
impl<T> Drop for Sender<T> {
    fn drop(&mut self) {
        let last = self.ch.st.with(|s| s.senders == 1);
        if last {
            kernel::point();
        }
        let last = self.ch.st.with(|s| {
            s.senders -= 1;
            s.senders == 0
        });
        if last {
            self.ch.close();
        }
    }
}
impl<T> Drop for Receiver<T> {
    fn drop(&mut self) {
        let last = self.ch.st.with(|s| s.receivers == 1);
        if last {
            kernel::point();
        }
        let last = self.ch.st.with(|s| {
            s.receivers -= 1;
            s.receivers == 0
        });
        if last {
            self.ch.close();
        }
    }
}

impl<T> Sender<T> {
    pub fn try_send(&self, msg: T) -> Result<(), TrySendError<T>> {
        kernel::point();
        self.ch.try_send(msg)
    }
    pub fn send(&self, msg: T) -> Send<'_, T> {
        Send { s: self, msg: Some(msg), first: true }
    }
    pub fn send_blocking(&self, msg: T) -> Result<(), SendError<T>> {
        kernel::point();
        let mut msg = msg;
        loop {
            match self.ch.try_send(msg) {
                Ok(()) => return Ok(()),
                Err(TrySendError::Closed(m)) => return Err(SendError(m)),
                Err(TrySendError::Full(m)) => msg = m,
            }
            self.ch.st.with(|s| s.send_blocked.push(kernel::me()));
            kernel::block();
        }
    }
}
impl<T> Receiver<T> {
    pub fn try_recv(&self) -> Result<T, TryRecvError> {
        kernel::point();
        self.ch.try_recv()
    }
    pub fn recv(&self) -> Recv<'_, T> {
        Recv { r: self, first: true }
    }
    pub fn recv_blocking(&self) -> Result<T, RecvError> {
        kernel::point();
        loop {
            match self.ch.try_recv() {
                Ok(m) => return Ok(m),
                Err(TryRecvError::Closed) => return Err(RecvError),
                Err(TryRecvError::Empty) => {}
            }
            self.ch.st.with(|s| s.recv_blocked.push(kernel::me()));
            kernel::block();
        }
    }
}

#[must_use = "futures do nothing unless you `.await` or poll them"]
pub struct Send<'a, T> {
    s: &'a Sender<T>,
    msg: Option<T>,
    first: bool,
}
impl<T> Unpin for Send<'_, T> {}
impl<T> Future for Send<'_, T> {
    type Output = Result<(), SendError<T>>;
    fn poll(mut self: Pin<&mut Self>, cx: &mut Context<'_>) -> Poll<Self::Output> {
        if aselect::peeking() {
            let ready = self.msg.is_some() && self.s.ch.st.with(|s| s.closed || !matches!(s.cap, Some(c) if s.q.len() >= c));
            aselect::report(ready);
            aselect::report_dead(self.s.ch.st.with(|s| s.closed));
            return Poll::Pending;
        }
        if self.first {
            self.first = false;
            aselect::op_point();
        }
        let msg = self.msg.take().expect("Send polled after completion");
        match self.s.ch.try_send(msg) {
            Ok(()) => Poll::Ready(Ok(())),
            Err(TrySendError::Closed(m)) => Poll::Ready(Err(SendError(m))),
            Err(TrySendError::Full(m)) => {
                self.msg = Some(m);
                self.s.ch.st.with(|s| s.send_wakers.push(cx.waker().clone()));
                Poll::Pending
            }
        }
    }
}

#[must_use = "futures do nothing unless you `.await` or poll them"]
pub struct Recv<'a, T> {
    r: &'a Receiver<T>,
    first: bool,
}
impl<T> Unpin for Recv<'_, T> {}
impl<T> Future for Recv<'_, T> {
    type Output = Result<T, RecvError>;
    fn poll(mut self: Pin<&mut Self>, cx: &mut Context<'_>) -> Poll<Self::Output> {
        if aselect::peeking() {
            let (ready, dead) = self.r.ch.st.with(|s| (!s.q.is_empty() || s.closed, s.q.is_empty() && s.closed));
            aselect::report(ready);
            aselect::report_dead(dead);
            return Poll::Pending;
        }
        if self.first {
            self.first = false;
            aselect::op_point();
        }
        match self.r.ch.try_recv() {
            Ok(m) => Poll::Ready(Ok(m)),
            Err(TryRecvError::Closed) => Poll::Ready(Err(RecvError)),
            Err(TryRecvError::Empty) => {
                self.r.ch.st.with(|s| s.recv_wakers.push(cx.waker().clone()));
                Poll::Pending
            }
        }
    }
}

impl<T> futures_core::Stream for Receiver<T> {
    type Item = T;
    fn poll_next(self: Pin<&mut Self>, cx: &mut Context<'_>) -> Poll<Option<T>> {
        if aselect::peeking() {
            aselect::report(self.ch.st.with(|s| !s.q.is_empty() || s.closed));
            return Poll::Pending;
        }
        match self.ch.try_recv() {
            Ok(m) => Poll::Ready(Some(m)),
            Err(TryRecvError::Closed) => Poll::Ready(None),
            Err(TryRecvError::Empty) => {
                self.ch.st.with(|s| s.recv_wakers.push(cx.waker().clone()));
                Poll::Pending
            }
        }
    }
}
