//! `std::time::SystemTime` look-alike over the virtual clock.

use crate::world::now_ns;
use std::ops::{Add, AddAssign, Sub, SubAssign};
use std::time::Duration;

#[derive(Copy, Clone, Eq, PartialEq, Ord, PartialOrd, Hash, Debug)]
pub struct SystemTime(u128);

pub const UNIX_EPOCH: SystemTime = SystemTime(0);

#[derive(Clone, Debug)]
pub struct SystemTimeError(Duration);
impl SystemTimeError {
    pub fn duration(&self) -> Duration {
        self.0
    }
}
impl std::fmt::Display for SystemTimeError {
    fn fmt(&self, f: &mut std::fmt::Formatter<'_>) -> std::fmt::Result {
        f.write_str("second time provided was later than self")
    }
}
impl std::error::Error for SystemTimeError {}

fn dur(ns: u128) -> Duration {
    Duration::new((ns / 1_000_000_000) as u64, (ns % 1_000_000_000) as u32)
}

impl SystemTime {
    pub const UNIX_EPOCH: SystemTime = SystemTime(0);
    pub fn now() -> Self {
        SystemTime(now_ns())
    }
    pub fn duration_since(&self, earlier: SystemTime) -> Result<Duration, SystemTimeError> {
        if self.0 >= earlier.0 {
            Ok(dur(self.0 - earlier.0))
        } else {
            Err(SystemTimeError(dur(earlier.0 - self.0)))
        }
    }
    pub fn elapsed(&self) -> Result<Duration, SystemTimeError> {
        SystemTime::now().duration_since(*self)
    }
    pub fn checked_add(&self, d: Duration) -> Option<SystemTime> {
        self.0.checked_add(d.as_nanos()).map(SystemTime)
    }
    pub fn checked_sub(&self, d: Duration) -> Option<SystemTime> {
        self.0.checked_sub(d.as_nanos()).map(SystemTime)
    }
    pub fn as_nanos(&self) -> u128 {
        self.0
    }
}
impl Add<Duration> for SystemTime {
    type Output = SystemTime;
    fn add(self, d: Duration) -> SystemTime {
        self.checked_add(d).expect("overflow when adding duration to instant")
    }
}
impl AddAssign<Duration> for SystemTime {
    fn add_assign(&mut self, d: Duration) {
        *self = *self + d;
    }
}
impl Sub<Duration> for SystemTime {
    type Output = SystemTime;
    fn sub(self, d: Duration) -> SystemTime {
        self.checked_sub(d).expect("overflow when subtracting duration from instant")
    }
}
impl SubAssign<Duration> for SystemTime {
    fn sub_assign(&mut self, d: Duration) {
        *self = *self - d;
    }
}
