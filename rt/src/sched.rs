//! Preemption-bounded depth-first enumeration of schedules and data choices (CHESS-style
//! iterative context bounding), with record / replay.
//!
//! A *choice point* is either a task choice (which runnable task runs next) or a data choice
//! (`choose(n)`: which of several simultaneously ready `select!` arms fires, harness
//! nondeterminism).  Forced points (one option) are not recorded.  Switching away from a task that
//! is still runnable and did not yield costs one preemption; only `bound` of them are allowed per
//! execution.  Every execution runs to completion.

use crate::world::with_world;
use shuttle::scheduler::{Schedule, Scheduler, Task, TaskId};
use std::cell::RefCell;
use std::rc::Rc;
use std::sync::Arc;
use std::time::Instant;

#[derive(Clone, Copy, PartialEq, Eq, Debug)]
pub enum Mode {
    Explore,
    Setup,
    Finish,
}

#[derive(Clone, Debug)]
enum Level {
    Task { opts: Vec<usize>, idx: usize },
    Data { n: usize, idx: usize },
}
impl Level {
    fn idx(&self) -> usize {
        match self {
            Level::Task { idx, .. } | Level::Data { idx, .. } => *idx,
        }
    }
    fn len(&self) -> usize {
        match self {
            Level::Task { opts, .. } => opts.len(),
            Level::Data { n, .. } => *n,
        }
    }
}

#[derive(Clone, Debug)]
pub struct Violation {
    pub kind: String,
    pub msg: String,
    /// the recorded choice indices of the execution that exhibited it
    pub choices: Vec<usize>,
    pub bound: usize,
}

#[derive(Clone, Debug)]
pub struct ExploreCfg {
    pub bound: usize,
    pub max_executions: u64,
    pub deadline: Option<Instant>,
    pub step_cap: u64,
    pub stack_size: usize,
    /// stop after this many violations have been collected (the exploration is then incomplete)
    pub max_violations: usize,
    /// deviation bounding: ALSO picking a non-default task when the running one blocks / ends /
    /// yields costs one unit of `bound` (default = next task in round-robin order).  The explored
    /// set is a subset of the preemption-bounded one at the same bound, but polynomial in the
    /// number of blocking points, which lets 3+ client programs reach higher bounds.
    pub count_free_switches: bool,
}
impl Default for ExploreCfg {
    fn default() -> Self {
        ExploreCfg {
            bound: 0,
            max_executions: u64::MAX,
            deadline: None,
            step_cap: 20_000,
            stack_size: 1 << 20,
            max_violations: 64,
            count_free_switches: false,
        }
    }
}

#[derive(Clone, Debug, Default)]
pub struct ExploreOut {
    pub executions: u64,
    pub steps: u64,
    pub points: u64,
    pub complete: bool,
    pub cap: Option<String>,
    pub violations: Vec<Violation>,
    pub max_depth: usize,
    /// executions by number of preemptions used (index = preemptions, last = "or more")
    pub preempt_hist: [u64; 6],
    pub select_ties: u64,
    pub nondeterminism: Option<String>,
}

struct Dfs {
    stack: Vec<Level>,
    pos: usize,
    bound: usize,
    started: bool,
    harvested: bool,
    pre_now: usize,
    fixed: Option<Vec<usize>>,
    steps_this: u64,
    cfg: ExploreCfg,
    out: ExploreOut,
    done: bool,
}

thread_local! {
    static DFS: RefCell<Option<Rc<RefCell<Dfs>>>> = const { RefCell::new(None) };
    static LAST_PANIC: RefCell<Option<String>> = const { RefCell::new(None) };
}

fn with_dfs<R>(f: impl FnOnce(&mut Dfs) -> R) -> Option<R> {
    DFS.with(|x| x.borrow().as_ref().map(|d| f(&mut d.borrow_mut())))
}

impl Dfs {
    fn snapshot(&self) -> Vec<usize> {
        let mut v: Vec<usize> = self.stack.iter().map(|l| l.idx()).collect();
        while v.last() == Some(&0) {
            v.pop();
        }
        v
    }
    fn harvest(&mut self) {
        let vs: Vec<(String, String)> = with_world(|w| std::mem::take(&mut w.cur_violations));
        if !vs.is_empty() {
            let choices = self.snapshot();
            for (kind, msg) in vs {
                if self.out.violations.len() < self.cfg.max_violations {
                    self.out.violations.push(Violation { kind, msg, choices: choices.clone(), bound: self.bound });
                }
            }
        }
        let p = self.pre_now.min(5);
        self.out.preempt_hist[p] += 1;
        self.out.max_depth = self.out.max_depth.max(self.stack.len());
    }
    /// Take (or create) the level at the current position and return the chosen index.
    fn level(&mut self, make: impl FnOnce(usize) -> Level, check: impl FnOnce(&Level) -> bool) -> usize {
        let i = self.pos;
        self.pos += 1;
        if i < self.stack.len() {
            if !check(&self.stack[i]) {
                let msg = format!("replay divergence at choice point {} (recorded {:?})", i, self.stack[i]);
                self.out.nondeterminism = Some(msg.clone());
                panic!("NONDETERMINISM: {}", msg);
            }
            self.stack[i].idx()
        } else {
            let idx = match &self.fixed {
                Some(f) => f.get(i).copied().unwrap_or(0),
                None => 0,
            };
            let lvl = make(idx);
            if idx >= lvl.len() {
                let msg = format!("replay choice {} out of range at point {} ({:?})", idx, i, lvl);
                self.out.nondeterminism = Some(msg.clone());
                panic!("NONDETERMINISM: {}", msg);
            }
            self.stack.push(lvl);
            idx
        }
    }
}

/// Enumerated data choice in `0..n`.
pub fn choose(n: usize) -> usize {
    if n <= 1 {
        return 0;
    }
    if with_world(|w| w.mode) != Mode::Explore {
        return 0;
    }
    with_dfs(|d| {
        d.level(
            |idx| Level::Data { n, idx },
            |l| matches!(l, Level::Data { n: m, .. } if *m == n),
        )
    })
    .unwrap_or(0)
}

impl Dfs {
    /// Harvest the previous execution and move to the next one; false = this job is exhausted.
    fn advance(&mut self) -> bool {
        if self.started && !self.harvested {
            self.harvest();
            self.harvested = true;
        }
        if self.done {
            return false;
        }
        if self.started {
            if self.fixed.is_some() {
                self.done = true;
                self.out.complete = true;
                return false;
            }
            if self.out.violations.len() >= self.cfg.max_violations {
                self.done = true;
                self.out.cap = Some(format!("stopped after {} violations", self.out.violations.len()));
                return false;
            }
            // backtrack
            loop {
                match self.stack.last() {
                    None => {
                        self.done = true;
                        self.out.complete = true;
                        return false;
                    }
                    Some(l) if l.idx() + 1 < l.len() => break,
                    _ => {
                        self.stack.pop();
                    }
                }
            }
            if self.out.executions >= self.cfg.max_executions {
                self.done = true;
                self.out.cap = Some(format!("execution cap {} reached", self.cfg.max_executions));
                return false;
            }
            if let Some(dl) = self.cfg.deadline {
                if self.out.executions % 64 == 0 && Instant::now() >= dl {
                    self.done = true;
                    self.out.cap = Some("wall-clock cap reached".to_string());
                    return false;
                }
            }
            match self.stack.last_mut().unwrap() {
                Level::Task { idx, .. } | Level::Data { idx, .. } => *idx += 1,
            }
        }
        self.started = true;
        self.harvested = false;
        self.pos = 0;
        self.pre_now = 0;
        self.steps_this = 0;
        self.out.executions += 1;
        true
    }
}

pub type Body = Arc<dyn Fn() + Send + Sync>;

/// One unit of work for `explore_stream`.
pub struct StreamJob {
    pub cfg: ExploreCfg,
    pub fixed: Option<Vec<usize>>,
    pub body: Body,
}

struct Stream {
    dfs: Rc<RefCell<Dfs>>,
    source: Box<dyn FnMut() -> Option<StreamJob>>,
    sink: Box<dyn FnMut(ExploreOut)>,
    finished: bool,
    p0: u64,
    t0: u64,
}

struct Sched(Rc<RefCell<Stream>>);

impl Scheduler for Sched {
    fn new_execution(&mut self) -> Option<Schedule> {
        let mut st = self.0.borrow_mut();
        if st.finished {
            return None;
        }
        loop {
            let go = st.dfs.borrow_mut().advance();
            if go {
                with_world(|w| w.begin_execution());
                crate::obs::clear();
                crate::chan::reset_streaks();
                crate::aselect::reset_streaks();
                return Some(Schedule::new(0));
            }
            // job exhausted: hand out its result, fetch the next one
            let mut out = st.dfs.borrow().out.clone();
            let (p1, t1) = with_world(|w| (w.points, w.select_ties));
            out.points = p1 - st.p0;
            out.select_ties = t1 - st.t0;
            st.p0 = p1;
            st.t0 = t1;
            (st.sink)(out);
            match (st.source)() {
                Some(j) => {
                    *st.dfs.borrow_mut() = new_dfs(&j.cfg, j.fixed.clone());
                    CUR_BODY.with(|b| *b.borrow_mut() = Some(j.body.clone()));
                }
                None => {
                    st.finished = true;
                    return None;
                }
            }
        }
    }

    fn next_task(&mut self, runnable: &[&Task], current: Option<TaskId>, is_yielding: bool) -> Option<TaskId> {
        let dfs = self.0.borrow().dfs.clone();
        let mut d = dfs.borrow_mut();
        d.out.steps += 1;
        d.steps_this += 1;
        if d.steps_this > d.cfg.step_cap {
            with_world(|w| {
                if !w.cur_violations.iter().any(|(k, _)| k == "step-cap") {
                    w.cur_violations.push((
                        "step-cap".into(),
                        format!("execution exceeded {} scheduling steps (livelock / unbounded spin?)", d.cfg.step_cap),
                    ))
                }
            });
            return None;
        }
        let cur: Option<usize> = current.map(usize::from);
        let ids: Vec<usize> = runnable.iter().map(|t| usize::from(t.id())).collect();
        let cur_in = cur.map(|c| ids.contains(&c)).unwrap_or(false);
        let cur_runnable = cur_in && !is_yielding;

        // settle: the driver yields until it is the only runnable task
        let (mode, settling) = with_world(|w| (w.mode, w.settle_driver));
        if is_yielding && cur_in && settling == cur && ids.len() == 1 {
            with_world(|w| w.quiescent = true);
            return current;
        }

        // A driver that is settling only yields again when scheduled: it is not a candidate while
        // anything else can run (pure saving, and it keeps a spinning worker from ping-ponging
        // with the driver forever while a third task starves).
        let others = |ids: &Vec<usize>| -> Vec<usize> {
            let mut v: Vec<usize> = ids.iter().copied().filter(|t| Some(*t) != cur).collect();
            if let Some(d) = settling {
                if Some(d) != cur && v.len() > 1 {
                    v.retain(|t| *t != d);
                }
            }
            v.sort_unstable();
            v
        };

        if mode != Mode::Explore {
            let pick = if cur_runnable {
                cur.unwrap()
            } else {
                let o = others(&ids);
                if o.is_empty() {
                    ids[0]
                } else {
                    o[0]
                }
            };
            return Some(TaskId::from(pick));
        }

        let opts: Vec<usize> = if cur_runnable {
            let mut v = vec![cur.unwrap()];
            if d.pre_now < d.bound {
                v.extend(others(&ids));
            }
            v
        } else {
            let mut o = others(&ids);
            if o.is_empty() {
                ids.clone()
            } else {
                if d.cfg.count_free_switches && o.len() > 1 {
                    // default = the next task after the current one in round-robin order
                    let c = cur.unwrap_or(0);
                    let k = o.iter().position(|t| *t > c).unwrap_or(0);
                    o.rotate_left(k);
                    if d.pre_now >= d.bound {
                        o.truncate(1);
                    }
                }
                o
            }
        };
        let free_switch = !cur_runnable;
        let default_choice = opts[0];
        let chosen = if opts.len() == 1 {
            opts[0]
        } else {
            let o2 = opts.clone();
            let idx = d.level(
                move |idx| Level::Task { opts: o2, idx },
                |l| matches!(l, Level::Task { opts: o, .. } if *o == opts),
            );
            opts[idx]
        };
        if cur_runnable && Some(chosen) != cur {
            d.pre_now += 1;
        } else if free_switch && d.cfg.count_free_switches && chosen != default_choice {
            d.pre_now += 1;
        }
        Some(TaskId::from(chosen))
    }

    fn next_u64(&mut self) -> u64 {
        0
    }
}

fn install_hook_once() {
    use std::sync::Once;
    static ONCE: Once = Once::new();
    ONCE.call_once(|| {
        let prev = std::panic::take_hook();
        std::panic::set_hook(Box::new(move |info| {
            let msg = if let Some(s) = info.payload().downcast_ref::<&str>() {
                s.to_string()
            } else if let Some(s) = info.payload().downcast_ref::<String>() {
                s.clone()
            } else {
                "<non-string panic>".to_string()
            };
            let loc = info.location().map(|l| format!("{}:{}", l.file(), l.line())).unwrap_or_default();
            let inside = DFS.with(|x| x.borrow().is_some());
            if inside {
                LAST_PANIC.with(|p| {
                    let mut p = p.borrow_mut();
                    // keep the FIRST panic of an execution: later ones are shuttle's wrappers
                    if p.is_none() {
                        *p = Some(format!("{} @ {}", msg, loc));
                    }
                });
            } else {
                prev(info);
            }
        }));
    });
}

thread_local! {
    static CUR_BODY: RefCell<Option<Body>> = const { RefCell::new(None) };
}

fn new_dfs(cfg: &ExploreCfg, fixed: Option<Vec<usize>>) -> Dfs {
    Dfs {
        stack: Vec::new(),
        pos: 0,
        bound: cfg.bound,
        started: false,
        harvested: false,
        pre_now: 0,
        fixed,
        steps_this: 0,
        cfg: cfg.clone(),
        out: ExploreOut::default(),
        done: false,
    }
}

/// Explore a stream of jobs on this OS thread, re-using one shuttle runner (and its pool of
/// coroutine stacks) across jobs.  `source` is asked for the next job whenever the current one is
/// exhausted (it may configure the world for it); `sink` receives each job's result.
pub fn explore_stream(mut source: Box<dyn FnMut() -> Option<StreamJob>>, sink: Box<dyn FnMut(ExploreOut)>) {
    install_hook_once();
    let first = match source() {
        Some(j) => j,
        None => return,
    };
    let stack_size = first.cfg.stack_size;
    let dfs = Rc::new(RefCell::new(new_dfs(&first.cfg, first.fixed.clone())));
    CUR_BODY.with(|b| *b.borrow_mut() = Some(first.body.clone()));
    DFS.with(|x| *x.borrow_mut() = Some(dfs.clone()));
    let (p0, t0) = with_world(|w| (w.points, w.select_ties));
    let stream = Rc::new(RefCell::new(Stream { dfs: dfs.clone(), source, sink, finished: false, p0, t0 }));
    loop {
        let mut scfg = shuttle::Config::new();
        scfg.max_steps = shuttle::MaxSteps::None;
        scfg.stack_size = stack_size;
        scfg.failure_persistence = shuttle::FailurePersistence::None;
        scfg.silence_warnings = true;
        LAST_PANIC.with(|p| *p.borrow_mut() = None);
        let sched = Sched(stream.clone());
        let r = std::panic::catch_unwind(std::panic::AssertUnwindSafe(move || {
            shuttle::Runner::new(sched, scfg).run(move || {
                let b = CUR_BODY.with(|b| b.borrow().clone());
                if let Some(b) = b {
                    b()
                }
            });
        }));
        match r {
            Ok(_) => break,
            Err(_) => {
                let msg = LAST_PANIC.with(|p| p.borrow_mut().take()).unwrap_or_else(|| "<unknown panic>".into());
                let mut d = dfs.borrow_mut();
                if d.out.nondeterminism.is_some() || msg.contains("NONDETERMINISM") {
                    d.out.nondeterminism.get_or_insert(msg);
                    d.done = true;
                } else {
                    let kind = if msg.contains("deadlock") { "deadlock" } else { "panic" };
                    with_world(|w| w.cur_violations.push((kind.to_string(), msg)));
                }
                // a fresh runner continues: its first `new_execution` harvests and backtracks
            }
        }
        if stream.borrow().finished {
            break;
        }
    }
    DFS.with(|x| *x.borrow_mut() = None);
    CUR_BODY.with(|b| *b.borrow_mut() = None);
}

fn run(cfg: ExploreCfg, fixed: Option<Vec<usize>>, body: Body) -> ExploreOut {
    let job = Rc::new(RefCell::new(Some(StreamJob { cfg, fixed, body })));
    let result = Rc::new(RefCell::new(None));
    let r2 = result.clone();
    explore_stream(Box::new(move || job.borrow_mut().take()), Box::new(move |o| *r2.borrow_mut() = Some(o)));
    let r = result.borrow_mut().take();
    r.unwrap_or_default()
}

/// Run `body` under every schedule with at most `cfg.bound` preemptions and every data choice.
pub fn explore(cfg: ExploreCfg, body: Arc<dyn Fn() + Send + Sync>) -> ExploreOut {
    run(cfg, None, body)
}

/// Re-run exactly one execution following the recorded `choices` (then default choices).
pub fn replay(cfg: ExploreCfg, choices: Vec<usize>, body: Arc<dyn Fn() + Send + Sync>) -> ExploreOut {
    run(cfg, Some(choices), body)
}
