//! `async_io::Timer` model over the virtual clock: `interval(p)` first fires at `now + p`, then
//! `when += p` (catch-up, like async-io 2.x); `after(d)` fires once.

use crate::aselect;
use crate::world::{now_ns, with_world, TimeWaiter};
use futures_core::Stream;
use std::future::Future;
use std::pin::Pin;
use std::task::{Context, Poll};
use std::time::{Duration, Instant};

#[derive(Debug)]
pub struct Timer {
    when: Option<u128>,
    period: Option<u128>,
    reg: Option<u64>,
}

impl Timer {
    pub fn never() -> Timer {
        Timer { when: None, period: None, reg: None }
    }
    pub fn after(d: Duration) -> Timer {
        Timer { when: Some(now_ns() + d.as_nanos()), period: None, reg: None }
    }
    pub fn interval(p: Duration) -> Timer {
        Timer { when: Some(now_ns() + p.as_nanos()), period: Some(p.as_nanos().max(1)), reg: None }
    }
    pub fn will_fire(&self) -> bool {
        self.when.is_some()
    }
    pub fn set_after(&mut self, d: Duration) {
        self.dereg();
        self.when = Some(now_ns() + d.as_nanos());
        self.period = None;
    }
    pub fn set_interval(&mut self, p: Duration) {
        self.dereg();
        self.when = Some(now_ns() + p.as_nanos());
        self.period = Some(p.as_nanos().max(1));
    }
    fn dereg(&mut self) {
        if let Some(id) = self.reg.take() {
            with_world(|w| w.time_waiters.retain(|tw| !matches!(tw, TimeWaiter::Async { id: i, .. } if *i == id)));
        }
    }
    fn poll_in(&mut self, cx: &mut Context<'_>) -> Poll<Option<Instant>> {
        let due = matches!(self.when, Some(w) if now_ns() >= w);
        if aselect::peeking() {
            aselect::report(due);
            return Poll::Pending;
        }
        if due {
            self.dereg();
            self.when = match (self.when, self.period) {
                (Some(w), Some(p)) => Some(w + p),
                _ => None,
            };
            return Poll::Ready(Some(Instant::now()));
        }
        if let Some(wh) = self.when {
            self.dereg();
            let id = with_world(|w| {
                let id = w.next_timer_id;
                w.next_timer_id += 1;
                w.time_waiters.push(TimeWaiter::Async { deadline: wh, waker: cx.waker().clone(), id });
                id
            });
            self.reg = Some(id);
        }
        Poll::Pending
    }
}
impl Drop for Timer {
    fn drop(&mut self) {
        if !std::thread::panicking() {
            self.dereg();
        }
    }
}
impl Stream for Timer {
    type Item = Instant;
    fn poll_next(mut self: Pin<&mut Self>, cx: &mut Context<'_>) -> Poll<Option<Instant>> {
        self.poll_in(cx)
    }
}
impl Future for Timer {
    type Output = Instant;
    fn poll(mut self: Pin<&mut Self>, cx: &mut Context<'_>) -> Poll<Instant> {
        match self.poll_in(cx) {
            Poll::Ready(Some(i)) => Poll::Ready(i),
            _ => Poll::Pending,
        }
    }
}
