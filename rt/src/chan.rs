//! `crossbeam-channel` model: bounded / unbounded / rendezvous / tick / after / never channels and
//! `select!`, with crossbeam's observable semantics (DESIGN appendix A):
//!
//! * `select!` at entry: any of the arms ready now (enumerated data choice); else `default`; else
//!   block.  A task blocked in `select!` is *committed* to the arm a counterparty makes ready first
//!   (`Context::try_select`); a timer or disconnect wake-up re-selects among all ready arms.
//! * `bounded(0)`: `send` hands the message to a receiver that is already blocked and returns at
//!   once; otherwise it publishes an offer and blocks until a receiver takes it.
//! * last receiver dropped: senders get `Disconnected`; buffered messages are discarded at once only
//!   by the unbounded flavour (bounded / rendezvous keep them until the channel is freed); last
//!   sender dropped: buffered messages stay receivable, then `RecvError`.
//! * `tick(d)`: ready iff `now >= delivery`; on receipt `delivery = now + d`.

use crate::kernel::{self, Shared};
use crate::world::{with_world, Sel, SelState, TimeWaiter};
use std::collections::VecDeque;
use std::fmt;
use std::rc::Rc;
use std::sync::Arc;
use std::time::{Duration, Instant};

// ------------------------------------------------------------------------------------------------
// errors (same Display strings as crossbeam-channel: they end up in CacheError messages)

#[derive(PartialEq, Eq, Clone, Copy, Debug)]
pub struct RecvError;
impl fmt::Display for RecvError {
    fn fmt(&self, f: &mut fmt::Formatter<'_>) -> fmt::Result {
        f.write_str("receiving on an empty and disconnected channel")
    }
}
impl std::error::Error for RecvError {}

#[derive(PartialEq, Eq, Clone, Copy)]
pub struct SendError<T>(pub T);
impl<T> SendError<T> {
    pub fn into_inner(self) -> T {
        self.0
    }
}
impl<T> fmt::Debug for SendError<T> {
    fn fmt(&self, f: &mut fmt::Formatter<'_>) -> fmt::Result {
        f.write_str("SendError(..)")
    }
}
impl<T> fmt::Display for SendError<T> {
    fn fmt(&self, f: &mut fmt::Formatter<'_>) -> fmt::Result {
        f.write_str("sending on a disconnected channel")
    }
}
impl<T: Send> std::error::Error for SendError<T> {}

#[derive(PartialEq, Eq, Clone, Copy)]
pub enum TrySendError<T> {
    Full(T),
    Disconnected(T),
}
impl<T> TrySendError<T> {
    pub fn into_inner(self) -> T {
        match self {
            TrySendError::Full(t) | TrySendError::Disconnected(t) => t,
        }
    }
    pub fn is_full(&self) -> bool {
        matches!(self, TrySendError::Full(_))
    }
    pub fn is_disconnected(&self) -> bool {
        matches!(self, TrySendError::Disconnected(_))
    }
}
impl<T> fmt::Debug for TrySendError<T> {
    fn fmt(&self, f: &mut fmt::Formatter<'_>) -> fmt::Result {
        match self {
            TrySendError::Full(_) => f.write_str("Full(..)"),
            TrySendError::Disconnected(_) => f.write_str("Disconnected(..)"),
        }
    }
}
impl<T> fmt::Display for TrySendError<T> {
    fn fmt(&self, f: &mut fmt::Formatter<'_>) -> fmt::Result {
        match self {
            TrySendError::Full(_) => f.write_str("sending on a full channel"),
            TrySendError::Disconnected(_) => f.write_str("sending on a disconnected channel"),
        }
    }
}
impl<T: Send> std::error::Error for TrySendError<T> {}
impl<T> From<SendError<T>> for TrySendError<T> {
    fn from(e: SendError<T>) -> Self {
        TrySendError::Disconnected(e.0)
    }
}

#[derive(PartialEq, Eq, Clone, Copy, Debug)]
pub enum TryRecvError {
    Empty,
    Disconnected,
}
impl TryRecvError {
    pub fn is_empty(&self) -> bool {
        matches!(self, TryRecvError::Empty)
    }
    pub fn is_disconnected(&self) -> bool {
        matches!(self, TryRecvError::Disconnected)
    }
}
impl fmt::Display for TryRecvError {
    fn fmt(&self, f: &mut fmt::Formatter<'_>) -> fmt::Result {
        match self {
            TryRecvError::Empty => f.write_str("receiving on an empty channel"),
            TryRecvError::Disconnected => f.write_str("receiving on an empty and disconnected channel"),
        }
    }
}
impl std::error::Error for TryRecvError {}
impl From<RecvError> for TryRecvError {
    fn from(_: RecvError) -> Self {
        TryRecvError::Disconnected
    }
}

#[derive(PartialEq, Eq, Clone, Copy, Debug)]
pub enum RecvTimeoutError {
    Timeout,
    Disconnected,
}
impl RecvTimeoutError {
    pub fn is_timeout(&self) -> bool {
        matches!(self, RecvTimeoutError::Timeout)
    }
    pub fn is_disconnected(&self) -> bool {
        matches!(self, RecvTimeoutError::Disconnected)
    }
}
impl fmt::Display for RecvTimeoutError {
    fn fmt(&self, f: &mut fmt::Formatter<'_>) -> fmt::Result {
        match self {
            RecvTimeoutError::Timeout => f.write_str("timed out waiting on receive operation"),
            RecvTimeoutError::Disconnected => f.write_str("channel is empty and disconnected"),
        }
    }
}
impl std::error::Error for RecvTimeoutError {}
impl From<RecvError> for RecvTimeoutError {
    fn from(_: RecvError) -> Self {
        RecvTimeoutError::Disconnected
    }
}

#[derive(PartialEq, Eq, Clone, Copy)]
pub enum SendTimeoutError<T> {
    Timeout(T),
    Disconnected(T),
}
impl<T> SendTimeoutError<T> {
    pub fn into_inner(self) -> T {
        match self {
            SendTimeoutError::Timeout(t) | SendTimeoutError::Disconnected(t) => t,
        }
    }
    pub fn is_timeout(&self) -> bool {
        matches!(self, SendTimeoutError::Timeout(_))
    }
    pub fn is_disconnected(&self) -> bool {
        matches!(self, SendTimeoutError::Disconnected(_))
    }
}
impl<T> fmt::Debug for SendTimeoutError<T> {
    fn fmt(&self, f: &mut fmt::Formatter<'_>) -> fmt::Result {
        f.write_str("SendTimeoutError(..)")
    }
}
impl<T> fmt::Display for SendTimeoutError<T> {
    fn fmt(&self, f: &mut fmt::Formatter<'_>) -> fmt::Result {
        match self {
            SendTimeoutError::Timeout(_) => f.write_str("timed out waiting on send operation"),
            SendTimeoutError::Disconnected(_) => f.write_str("sending on a disconnected channel"),
        }
    }
}
impl<T: Send> std::error::Error for SendTimeoutError<T> {}
impl<T> From<SendError<T>> for SendTimeoutError<T> {
    fn from(e: SendError<T>) -> Self {
        SendTimeoutError::Disconnected(e.0)
    }
}

// ------------------------------------------------------------------------------------------------
// channel state

struct Offer<T> {
    id: u64,
    msg: T,
    st: Rc<SelState>,
}

struct ChanState<T> {
    q: VecDeque<T>,
    cap: Option<usize>,
    senders: usize,
    receivers: usize,
    recv_waiters: Vec<(Rc<SelState>, usize)>,
    send_waiters: Vec<(Rc<SelState>, usize)>,
    offers: VecDeque<Offer<T>>,
    handoff: VecDeque<T>,
    next_offer: u64,
}

struct Chan<T> {
    st: Shared<ChanState<T>>,
}

impl<T> Chan<T> {
    /// select (commit) the first blocked receiver that is still waiting, crossbeam's `try_select`
    fn notify_recv_one(&self) {
        let t = self.st.with(|s| {
            for (st, arm) in s.recv_waiters.iter() {
                if st.selected.get() == Sel::Waiting {
                    st.selected.set(Sel::Op(*arm));
                    return Some(st.task);
                }
            }
            None
        });
        if let Some(t) = t {
            kernel::unblock(t);
        }
    }
    fn notify_send_one(&self) {
        let t = self.st.with(|s| {
            for (st, arm) in s.send_waiters.iter() {
                if st.selected.get() == Sel::Waiting {
                    st.selected.set(Sel::Op(*arm));
                    return Some(st.task);
                }
            }
            None
        });
        if let Some(t) = t {
            kernel::unblock(t);
        }
    }
    fn disconnect_wake(&self) {
        let ts: Vec<usize> = self.st.with(|s| {
            let mut v = Vec::new();
            for (st, _) in s.recv_waiters.iter().chain(s.send_waiters.iter()) {
                if st.selected.get() == Sel::Waiting {
                    st.selected.set(Sel::Aborted);
                    v.push(st.task);
                }
            }
            for o in s.offers.iter() {
                v.push(o.st.task);
            }
            v
        });
        for t in ts {
            kernel::unblock(t);
        }
    }
    fn send_ready(&self) -> bool {
        self.st.with(|s| {
            s.receivers == 0
                || match s.cap {
                    None => true,
                    Some(0) => s.recv_waiters.iter().any(|(st, _)| st.selected.get() == Sel::Waiting),
                    Some(c) => s.q.len() < c,
                }
        })
    }
    fn recv_ready(&self) -> bool {
        self.st.with(|s| !s.q.is_empty() || !s.handoff.is_empty() || !s.offers.is_empty() || s.senders == 0)
    }
    fn is_disconnected_for_recv(&self) -> bool {
        self.st.with(|s| s.q.is_empty() && s.handoff.is_empty() && s.offers.is_empty() && s.senders == 0)
    }
    /// `None` = would block
    fn recv_now(&self) -> Option<Result<T, RecvError>> {
        enum R<T> {
            Msg(T),
            Offer(T, usize),
            Disc,
            Block,
        }
        let r = self.st.with(|s| {
            if let Some(m) = s.handoff.pop_front() {
                R::Msg(m)
            } else if let Some(m) = s.q.pop_front() {
                R::Msg(m)
            } else if let Some(o) = s.offers.pop_front() {
                o.st.selected.set(Sel::Op(0));
                R::Offer(o.msg, o.st.task)
            } else if s.senders == 0 {
                R::Disc
            } else {
                R::Block
            }
        });
        match r {
            R::Msg(m) => {
                self.notify_send_one();
                Some(Ok(m))
            }
            R::Offer(m, t) => {
                kernel::unblock(t);
                Some(Ok(m))
            }
            R::Disc => Some(Err(RecvError)),
            R::Block => None,
        }
    }
    /// non-blocking part of a send; `Err(msg)` = would block
    fn send_now(&self, msg: T) -> Result<Result<(), SendError<T>>, T> {
        enum R<T> {
            Ok,
            Handed(usize),
            Disc(T),
            Block(T),
        }
        let r = self.st.with(|s| {
            if s.receivers == 0 {
                return R::Disc(msg);
            }
            match s.cap {
                Some(0) => {
                    for (st, arm) in s.recv_waiters.iter() {
                        if st.selected.get() == Sel::Waiting {
                            st.selected.set(Sel::Op(*arm));
                            s.handoff.push_back(msg);
                            return R::Handed(st.task);
                        }
                    }
                    R::Block(msg)
                }
                Some(c) if s.q.len() >= c => R::Block(msg),
                _ => {
                    s.q.push_back(msg);
                    R::Ok
                }
            }
        });
        match r {
            R::Ok => {
                self.notify_recv_one();
                Ok(Ok(()))
            }
            R::Handed(t) => {
                kernel::unblock(t);
                Ok(Ok(()))
            }
            R::Disc(m) => Ok(Err(SendError(m))),
            R::Block(m) => Err(m),
        }
    }
}

pub struct Sender<T> {
    ch: Arc<Chan<T>>,
}
unsafe impl<T: Send> Send for Sender<T> {}
unsafe impl<T: Send> Sync for Sender<T> {}

enum Flavor<T> {
    Chan(Arc<Chan<T>>),
    Tick { next: Arc<Shared<u128>>, d: Duration, mk: fn() -> T },
    After { at: u128, fired: Arc<Shared<bool>>, mk: fn() -> T },
    Never,
}
pub struct Receiver<T> {
    fl: Flavor<T>,
}
unsafe impl<T: Send> Send for Receiver<T> {}
unsafe impl<T: Send> Sync for Receiver<T> {}

fn mk<T>(cap: Option<usize>) -> (Sender<T>, Receiver<T>) {
    let ch = Arc::new(Chan {
        st: Shared::new(ChanState {
            q: VecDeque::new(),
            cap,
            senders: 1,
            receivers: 1,
            recv_waiters: Vec::new(),
            send_waiters: Vec::new(),
            offers: VecDeque::new(),
            handoff: VecDeque::new(),
            next_offer: 0,
        }),
    });
    (Sender { ch: ch.clone() }, Receiver { fl: Flavor::Chan(ch) })
}
pub fn bounded<T>(cap: usize) -> (Sender<T>, Receiver<T>) {
    mk(Some(cap))
}
pub fn unbounded<T>() -> (Sender<T>, Receiver<T>) {
    mk(None)
}
pub fn tick(d: Duration) -> Receiver<Instant> {
    Receiver {
        fl: Flavor::Tick { next: Arc::new(Shared::new(crate::world::now_ns() + d.as_nanos())), d, mk: Instant::now },
    }
}
pub fn after(d: Duration) -> Receiver<Instant> {
    Receiver {
        fl: Flavor::After { at: crate::world::now_ns() + d.as_nanos(), fired: Arc::new(Shared::new(false)), mk: Instant::now },
    }
}
pub fn never<T>() -> Receiver<T> {
    Receiver { fl: Flavor::Never }
}

impl<T> Clone for Sender<T> {
    fn clone(&self) -> Self {
        self.ch.st.with(|s| s.senders += 1);
        Sender { ch: self.ch.clone() }
    }
}
impl<T> Drop for Sender<T> {
    fn drop(&mut self) {
        let last = self.ch.st.with(|s| s.senders == 1);
        if last {
            kernel::point();
        }
        let last = self.ch.st.with(|s| {
            s.senders -= 1;
            s.senders == 0
        });
        if last {
            self.ch.disconnect_wake();
        }
    }
}
impl<T> Clone for Receiver<T> {
    fn clone(&self) -> Self {
        match &self.fl {
            Flavor::Chan(ch) => {
                ch.st.with(|s| s.receivers += 1);
                Receiver { fl: Flavor::Chan(ch.clone()) }
            }
            Flavor::Tick { next, d, mk } => Receiver { fl: Flavor::Tick { next: next.clone(), d: *d, mk: *mk } },
            Flavor::After { at, fired, mk } => Receiver { fl: Flavor::After { at: *at, fired: fired.clone(), mk: *mk } },
            Flavor::Never => Receiver { fl: Flavor::Never },
        }
    }
}
impl<T> Drop for Receiver<T> {
    fn drop(&mut self) {
        if let Flavor::Chan(ch) = &self.fl {
            let last = ch.st.with(|s| s.receivers == 1);
            if last {
                kernel::point();
            }
            // crossbeam 0.5.17: only the unbounded (list) flavour discards buffered messages when
            // the last receiver goes away; the bounded (array) and rendezvous flavours keep them
            // until the channel itself is freed (checked against the real crate by realcheck)
            let dropped = ch.st.with(|s| {
                s.receivers -= 1;
                if s.receivers == 0 {
                    if s.cap.is_none() {
                        Some(s.q.drain(..).collect::<Vec<T>>())
                    } else {
                        Some(Vec::new())
                    }
                } else {
                    None
                }
            });
            if let Some(msgs) = dropped {
                drop(msgs);
                ch.disconnect_wake();
            }
        }
    }
}

impl<T> Sender<T> {
    pub fn try_send(&self, msg: T) -> Result<(), TrySendError<T>> {
        kernel::point();
        match self.ch.send_now(msg) {
            Ok(Ok(())) => Ok(()),
            Ok(Err(e)) => Err(TrySendError::Disconnected(e.0)),
            Err(m) => Err(TrySendError::Full(m)),
        }
    }
    /// `send` with a timeout (virtual time): the message goes out, or the timer wins the select.
    pub fn send_timeout(&self, msg: T, timeout: Duration) -> Result<(), SendTimeoutError<T>> {
        let timer = after(timeout);
        let idx = {
            let arms: &[&dyn SelArm] = &[&SendArm(self), &timer];
            run_select(arms, false)
        };
        if idx == Some(0) {
            __send_now(self, msg).map_err(|e| SendTimeoutError::Disconnected(e.0))
        } else {
            Err(SendTimeoutError::Timeout(msg))
        }
    }
    pub fn send_deadline(&self, msg: T, deadline: Instant) -> Result<(), SendTimeoutError<T>> {
        self.send_timeout(msg, deadline.saturating_duration_since(Instant::now()))
    }
    pub fn send(&self, msg: T) -> Result<(), SendError<T>> {
        kernel::point();
        let mut msg = msg;
        loop {
            match self.ch.send_now(msg) {
                Ok(r) => return r,
                Err(m) => msg = m,
            }
            let zero = self.ch.st.with(|s| s.cap == Some(0));
            if zero {
                // publish an offer and wait until a receiver takes it or the channel disconnects
                let st = Rc::new(SelState { task: kernel::me(), selected: std::cell::Cell::new(Sel::Waiting) });
                let id = self.ch.st.with(|s| {
                    let id = s.next_offer;
                    s.next_offer += 1;
                    s.offers.push_back(Offer { id, msg, st: st.clone() });
                    id
                });
                // a receiver blocked on this channel since before the offer cannot exist (send_now
                // would have handed over), but one may be blocked on *other* arms: it is woken by
                // its own counterparties and finds the offer when it re-selects.
                loop {
                    kernel::block();
                    let r = self.ch.st.with(|s| {
                        if let Some(pos) = s.offers.iter().position(|o| o.id == id) {
                            if s.receivers == 0 {
                                let o = s.offers.remove(pos).unwrap();
                                Some(Err(SendError(o.msg)))
                            } else {
                                None
                            }
                        } else {
                            Some(Ok(()))
                        }
                    });
                    if let Some(r) = r {
                        return r;
                    }
                }
            }
            // full: block like a single-arm select on the send side
            let st = Rc::new(SelState { task: kernel::me(), selected: std::cell::Cell::new(Sel::Waiting) });
            self.ch.st.with(|s| s.send_waiters.push((st.clone(), 0)));
            if !self.ch.send_ready() {
                kernel::block();
            }
            self.ch.st.with(|s| s.send_waiters.retain(|(x, _)| !Rc::ptr_eq(x, &st)));
        }
    }
    pub fn is_empty(&self) -> bool {
        self.ch.st.with(|s| s.q.is_empty())
    }
    pub fn is_full(&self) -> bool {
        self.ch.st.with(|s| match s.cap {
            None => false,
            Some(c) => s.q.len() >= c,
        })
    }
    pub fn len(&self) -> usize {
        self.ch.st.with(|s| s.q.len())
    }
    pub fn capacity(&self) -> Option<usize> {
        self.ch.st.with(|s| s.cap)
    }
    pub fn same_channel(&self, other: &Sender<T>) -> bool {
        Arc::ptr_eq(&self.ch, &other.ch)
    }
}
impl<T> fmt::Debug for Sender<T> {
    fn fmt(&self, f: &mut fmt::Formatter<'_>) -> fmt::Result {
        f.write_str("Sender { .. }")
    }
}
impl<T> fmt::Debug for Receiver<T> {
    fn fmt(&self, f: &mut fmt::Formatter<'_>) -> fmt::Result {
        f.write_str("Receiver { .. }")
    }
}

impl<T> Receiver<T> {
    fn recv_ready(&self) -> bool {
        match &self.fl {
            Flavor::Chan(ch) => ch.recv_ready(),
            Flavor::Tick { next, .. } => crate::world::now_ns() >= next.with(|n| *n),
            Flavor::After { at, fired, .. } => !fired.with(|f| *f) && crate::world::now_ns() >= *at,
            Flavor::Never => false,
        }
    }
    fn recv_now(&self) -> Option<Result<T, RecvError>> {
        match &self.fl {
            Flavor::Chan(ch) => ch.recv_now(),
            Flavor::Tick { next, d, mk } => {
                let now = crate::world::now_ns();
                if now >= next.with(|n| *n) {
                    next.with(|n| *n = now + d.as_nanos());
                    Some(Ok(mk()))
                } else {
                    None
                }
            }
            Flavor::After { at, fired, mk } => {
                if !fired.with(|f| *f) && crate::world::now_ns() >= *at {
                    fired.with(|f| *f = true);
                    Some(Ok(mk()))
                } else {
                    None
                }
            }
            Flavor::Never => None,
        }
    }
    pub fn try_recv(&self) -> Result<T, TryRecvError> {
        kernel::point();
        match self.recv_now() {
            Some(Ok(m)) => Ok(m),
            Some(Err(_)) => Err(TryRecvError::Disconnected),
            None => Err(TryRecvError::Empty),
        }
    }
    /// `recv` with a timeout (virtual time): a message arrives, or the timer wins the select.
    pub fn recv_timeout(&self, timeout: Duration) -> Result<T, RecvTimeoutError> {
        let timer = after(timeout);
        let idx = {
            let arms: &[&dyn SelArm] = &[self, &timer];
            run_select(arms, false)
        };
        if idx == Some(0) {
            __recv_now(self).map_err(|_| RecvTimeoutError::Disconnected)
        } else {
            Err(RecvTimeoutError::Timeout)
        }
    }
    pub fn recv_deadline(&self, deadline: Instant) -> Result<T, RecvTimeoutError> {
        self.recv_timeout(deadline.saturating_duration_since(Instant::now()))
    }
    pub fn recv(&self) -> Result<T, RecvError> {
        loop {
            let arms: [&dyn SelArm; 1] = [self];
            run_select(&arms, false);
            if let Some(r) = self.recv_now() {
                return r;
            }
        }
    }
    pub fn is_empty(&self) -> bool {
        match &self.fl {
            Flavor::Chan(ch) => ch.st.with(|s| s.q.is_empty()),
            _ => !self.recv_ready(),
        }
    }
    pub fn len(&self) -> usize {
        match &self.fl {
            Flavor::Chan(ch) => ch.st.with(|s| s.q.len()),
            _ => self.recv_ready() as usize,
        }
    }
    pub fn capacity(&self) -> Option<usize> {
        match &self.fl {
            Flavor::Chan(ch) => ch.st.with(|s| s.cap),
            Flavor::Never => Some(0),
            _ => Some(1),
        }
    }
    pub fn try_iter(&self) -> TryIter<'_, T> {
        TryIter { r: self }
    }
    pub fn iter(&self) -> Iter<'_, T> {
        Iter { r: self }
    }
}
pub struct TryIter<'a, T> {
    r: &'a Receiver<T>,
}
impl<T> Iterator for TryIter<'_, T> {
    type Item = T;
    fn next(&mut self) -> Option<T> {
        self.r.try_recv().ok()
    }
}
pub struct Iter<'a, T> {
    r: &'a Receiver<T>,
}
impl<T> Iterator for Iter<'_, T> {
    type Item = T;
    fn next(&mut self) -> Option<T> {
        self.r.recv().ok()
    }
}

// ------------------------------------------------------------------------------------------------
// select

pub trait SelArm {
    fn ready(&self) -> bool;
    fn register(&self, st: &Rc<SelState>, arm: usize);
    fn unregister(&self, st: &Rc<SelState>);
    fn deadline(&self) -> Option<u128>;
    /// ready only because the channel is disconnected (used by the fairness rule below)
    fn dead(&self) -> bool;
}
impl<T> SelArm for Receiver<T> {
    fn ready(&self) -> bool {
        self.recv_ready()
    }
    fn register(&self, st: &Rc<SelState>, arm: usize) {
        if let Flavor::Chan(ch) = &self.fl {
            ch.st.with(|s| s.recv_waiters.push((st.clone(), arm)));
        }
    }
    fn unregister(&self, st: &Rc<SelState>) {
        if let Flavor::Chan(ch) = &self.fl {
            ch.st.with(|s| s.recv_waiters.retain(|(x, _)| !Rc::ptr_eq(x, st)));
        }
    }
    fn deadline(&self) -> Option<u128> {
        match &self.fl {
            Flavor::Tick { next, .. } => Some(next.with(|n| *n)),
            Flavor::After { at, fired, .. } => {
                if fired.with(|f| *f) {
                    None
                } else {
                    Some(*at)
                }
            }
            _ => None,
        }
    }
    fn dead(&self) -> bool {
        match &self.fl {
            Flavor::Chan(ch) => ch.is_disconnected_for_recv(),
            _ => false,
        }
    }
}
pub struct SendArm<'a, T>(pub &'a Sender<T>);
impl<T> SelArm for SendArm<'_, T> {
    fn ready(&self) -> bool {
        self.0.ch.send_ready()
    }
    fn register(&self, st: &Rc<SelState>, arm: usize) {
        self.0.ch.st.with(|s| s.send_waiters.push((st.clone(), arm)));
    }
    fn unregister(&self, st: &Rc<SelState>) {
        self.0.ch.st.with(|s| s.send_waiters.retain(|(x, _)| !Rc::ptr_eq(x, st)));
    }
    fn deadline(&self) -> Option<u128> {
        None
    }
    fn dead(&self) -> bool {
        self.0.ch.st.with(|s| s.receivers == 0)
    }
}

thread_local! {
    /// fairness for disconnect spins: per task, the dead arms fired in the current streak
    static STREAK: std::cell::RefCell<std::collections::HashMap<usize, Vec<usize>>> = std::cell::RefCell::new(Default::default());
}
pub(crate) fn reset_streaks() {
    STREAK.with(|s| s.borrow_mut().clear());
}

/// Decide which arm of a `select!` fires.  `None` = the `default` arm.
pub fn run_select(arms: &[&dyn SelArm], has_default: bool) -> Option<usize> {
    kernel::point();
    let model = kernel::in_model();
    loop {
        let mut ready: Vec<usize> = (0..arms.len()).filter(|i| arms[*i].ready()).collect();
        if !ready.is_empty() {
            if model && ready.len() > 1 {
                // Fairness assumption (DESIGN §4.1): within a streak of consecutive selects of one
                // task that all fired a *disconnected* arm, an arm is not fired twice while another
                // ready arm has not fired yet ("a uniformly random choice eventually picks every
                // ready arm").  Bounds the spin of a worker whose channels are all disconnected.
                let me = kernel::me();
                let fired: Vec<usize> = STREAK.with(|s| s.borrow().get(&me).cloned().unwrap_or_default());
                if !fired.is_empty() {
                    let fresh: Vec<usize> = ready.iter().copied().filter(|i| !fired.contains(i)).collect();
                    if !fresh.is_empty() {
                        ready = fresh;
                    } else {
                        STREAK.with(|s| s.borrow_mut().remove(&me));
                    }
                }
            }
            if ready.len() > 1 {
                with_world(|w| w.select_ties += 1);
            }
            let i = ready[crate::sched::choose(ready.len())];
            if std::env::var_os("SVDEBUG").is_some() {
                eprintln!("select task {:?} arms {} ready {:?} -> {} dead {}", if model { kernel::me() } else { 999 }, arms.len(), ready, i, arms[i].dead());
            }
            if model {
                let me = kernel::me();
                if arms[i].dead() {
                    STREAK.with(|s| s.borrow_mut().entry(me).or_default().push(i));
                    // a loop that keeps receiving errors from a disconnected channel is a spin
                    // loop: make the waiting visible (the scheduler prefers the other tasks), else
                    // a preemption-bounded schedule could run the spinner forever
                    kernel::yield_now();
                } else {
                    STREAK.with(|s| {
                        s.borrow_mut().remove(&me);
                    });
                }
            }
            return Some(i);
        }
        if has_default {
            return None;
        }
        if !model {
            panic!("stretto-verif-rt: select would block outside of a model execution");
        }
        let me = kernel::me();
        STREAK.with(|s| {
            s.borrow_mut().remove(&me);
        });
        let st = Rc::new(SelState { task: me, selected: std::cell::Cell::new(Sel::Waiting) });
        for (i, a) in arms.iter().enumerate() {
            a.register(&st, i);
            if let Some(dl) = a.deadline() {
                with_world(|w| w.time_waiters.push(TimeWaiter::Select { deadline: dl, st: st.clone() }));
            }
        }
        kernel::block();
        for a in arms.iter() {
            a.unregister(&st);
        }
        with_world(|w| {
            w.time_waiters.retain(|tw| match tw {
                TimeWaiter::Select { st: x, .. } => !Rc::ptr_eq(x, &st),
                _ => true,
            })
        });
        if let Sel::Op(i) = st.selected.get() {
            if i < arms.len() && arms[i].ready() {
                return Some(i);
            }
        }
        // timer / disconnect wake-up (or the committed arm is gone): re-select among ready arms
    }
}

#[doc(hidden)]
pub fn __recv_now<T>(r: &Receiver<T>) -> Result<T, RecvError> {
    match r.recv_now() {
        Some(x) => x,
        None => panic!("stretto-verif-rt: select! fired a recv arm that is not ready"),
    }
}
#[doc(hidden)]
pub fn __send_now<T>(s: &Sender<T>, m: T) -> Result<(), SendError<T>> {
    match s.ch.send_now(m) {
        Ok(r) => r,
        Err(_) => panic!("stretto-verif-rt: select! fired a send arm that is not ready"),
    }
}

/// `crossbeam_channel::select!` for the forms `recv(r) -> pat => expr`, `send(s, msg) -> pat =>
/// expr`, `default => expr` (comma separated; the message expression is only evaluated / moved in
/// the branch that fires).
#[macro_export]
macro_rules! select {
    ($($t:tt)*) => { $crate::__select_parse!(@p () () $($t)*) };
}
#[doc(hidden)]
#[macro_export]
macro_rules! __select_parse {
    (@p ($($arms:tt)*) ($($d:tt)*) recv($r:expr) -> $p:pat => $b:expr, $($rest:tt)*) => { $crate::__select_parse!(@p ($($arms)* (recv ($r) () $p, $b)) ($($d)*) $($rest)*) };
    (@p ($($arms:tt)*) ($($d:tt)*) recv($r:expr) -> $p:pat => $b:expr) => { $crate::__select_parse!(@p ($($arms)* (recv ($r) () $p, $b)) ($($d)*)) };
    (@p ($($arms:tt)*) ($($d:tt)*) send($s:expr, $m:expr) -> $p:pat => $b:expr, $($rest:tt)*) => { $crate::__select_parse!(@p ($($arms)* (send ($s) ($m) $p, $b)) ($($d)*) $($rest)*) };
    (@p ($($arms:tt)*) ($($d:tt)*) send($s:expr, $m:expr) -> $p:pat => $b:expr) => { $crate::__select_parse!(@p ($($arms)* (send ($s) ($m) $p, $b)) ($($d)*)) };
    (@p ($($arms:tt)*) () default => $b:expr, $($rest:tt)*) => { $crate::__select_parse!(@p ($($arms)*) (($b)) $($rest)*) };
    (@p ($($arms:tt)*) () default => $b:expr) => { $crate::__select_parse!(@p ($($arms)*) (($b))) };
    (@p ($( ($k:ident ($c:expr) ($($m:expr)?) $p:pat, $b:expr) )+) ($(($d:expr))?)) => {{
        #[allow(unused_mut)]
        let mut __has_default = false;
        $( let _ = stringify!($d); __has_default = true; )?
        let __idx = {
            let __arms: &[&dyn $crate::chan::SelArm] = &[ $( $crate::__select_arm!($k $c) ),+ ];
            $crate::chan::run_select(__arms, __has_default)
        };
        $crate::__select_dispatch!(__idx, 0usize, ($(($d))?) $( ($k ($c) ($($m)?) $p, $b) )+)
    }};
}
#[doc(hidden)]
#[macro_export]
macro_rules! __select_arm {
    (recv $c:expr) => { &$c };
    (send $c:expr) => { &$crate::chan::SendArm(&$c) };
}
#[doc(hidden)]
#[macro_export]
macro_rules! __select_dispatch {
    ($idx:ident, $n:expr, (($d:expr))) => { $d };
    ($idx:ident, $n:expr, ()) => { unreachable!("select! without default returned no arm") };
    ($idx:ident, $n:expr, ($($d:tt)*) (recv ($c:expr) () $p:pat, $b:expr) $($rest:tt)*) => {
        if $idx == Some($n) { let $p = $crate::chan::__recv_now(&$c); $b } else { $crate::__select_dispatch!($idx, $n + 1usize, ($($d)*) $($rest)*) }
    };
    ($idx:ident, $n:expr, ($($d:tt)*) (send ($c:expr) ($m:expr) $p:pat, $b:expr) $($rest:tt)*) => {
        if $idx == Some($n) { let $p = $crate::chan::__send_now(&$c, $m); $b } else { $crate::__select_dispatch!($idx, $n + 1usize, ($($d)*) $($rest)*) }
    };
}
