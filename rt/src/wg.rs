//! `wg::{WaitGroup, AsyncWaitGroup}` models.  Like the real crate (0.9.2) there is **no `Drop`
//! side effect**: a clone that is dropped without `done()` leaves the waiters waiting.

use crate::kernel::{self, Shared};
use std::future::Future;
use std::pin::Pin;
use std::sync::Arc;
use std::task::{Context, Poll, Waker};

#[derive(Default)]
struct WgState {
    count: usize,
    waiters: Vec<usize>,
    wakers: Vec<Waker>,
}

#[derive(Clone, Default)]
pub struct WaitGroup {
    inner: Arc<Shared<WgState>>,
}
impl WaitGroup {
    pub fn new() -> Self {
        Self::default()
    }
    pub fn add(&self, n: usize) -> Self {
        kernel::point();
        self.inner.with(|s| s.count += n);
        self.clone()
    }
    pub fn done(&self) -> usize {
        kernel::point();
        let (left, ws) = self.inner.with(|s| {
            if s.count > 0 {
                s.count -= 1;
            }
            if s.count == 0 {
                (0, std::mem::take(&mut s.waiters))
            } else {
                (s.count, Vec::new())
            }
        });
        for w in ws {
            kernel::unblock(w);
        }
        left
    }
    pub fn waitings(&self) -> usize {
        self.inner.with(|s| s.count)
    }
    pub fn wait(&self) {
        kernel::point();
        loop {
            let model = kernel::in_model();
            let ok = self.inner.with(|s| {
                if s.count == 0 {
                    true
                } else {
                    if model {
                        s.waiters.push(kernel::me());
                    }
                    false
                }
            });
            if ok {
                return;
            }
            kernel::block();
        }
    }
}
impl From<usize> for WaitGroup {
    fn from(n: usize) -> Self {
        let w = WaitGroup::default();
        w.inner.with(|s| s.count = n);
        w
    }
}
impl std::fmt::Debug for WaitGroup {
    fn fmt(&self, f: &mut std::fmt::Formatter<'_>) -> std::fmt::Result {
        write!(f, "WaitGroup {{ count: {} }}", self.waitings())
    }
}

#[derive(Clone, Default)]
pub struct AsyncWaitGroup {
    inner: Arc<Shared<WgState>>,
}
impl AsyncWaitGroup {
    pub fn new() -> Self {
        Self::default()
    }
    pub fn add(&self, n: usize) -> Self {
        kernel::point();
        self.inner.with(|s| s.count += n);
        self.clone()
    }
    pub fn done(&self) -> usize {
        kernel::point();
        let (left, ws, ts) = self.inner.with(|s| {
            if s.count > 0 {
                s.count -= 1;
            }
            if s.count == 0 {
                (0, std::mem::take(&mut s.wakers), std::mem::take(&mut s.waiters))
            } else {
                (s.count, Vec::new(), Vec::new())
            }
        });
        for w in ws {
            w.wake();
        }
        for t in ts {
            kernel::unblock(t);
        }
        left
    }
    pub fn waitings(&self) -> usize {
        self.inner.with(|s| s.count)
    }
    pub fn wait(&self) -> WaitGroupFuture<'_> {
        WaitGroupFuture { wg: self, first: true }
    }
    pub fn wait_blocking(&self) {
        kernel::point();
        loop {
            let ok = self.inner.with(|s| {
                if s.count == 0 {
                    true
                } else {
                    s.waiters.push(kernel::me());
                    false
                }
            });
            if ok {
                return;
            }
            kernel::block();
        }
    }
}
impl From<usize> for AsyncWaitGroup {
    fn from(n: usize) -> Self {
        let w = AsyncWaitGroup::default();
        w.inner.with(|s| s.count = n);
        w
    }
}
impl std::fmt::Debug for AsyncWaitGroup {
    fn fmt(&self, f: &mut std::fmt::Formatter<'_>) -> std::fmt::Result {
        write!(f, "AsyncWaitGroup {{ count: {} }}", self.waitings())
    }
}

/// The real future re-wakes itself while the counter is non-zero (a busy poll); the model parks
/// the task until `done()` brings the counter to zero.  Both never complete if that never happens.
pub struct WaitGroupFuture<'a> {
    wg: &'a AsyncWaitGroup,
    first: bool,
}
impl Future for WaitGroupFuture<'_> {
    type Output = ();
    fn poll(mut self: Pin<&mut Self>, cx: &mut Context<'_>) -> Poll<()> {
        if self.first {
            self.first = false;
            kernel::point();
        }
        let ready = self.wg.inner.with(|s| {
            if s.count == 0 {
                true
            } else {
                s.wakers.push(cx.waker().clone());
                false
            }
        });
        if ready {
            Poll::Ready(())
        } else {
            Poll::Pending
        }
    }
}
