//! `std::sync::atomic` look-alikes whose accesses are scheduling points (sequentially consistent:
//! stretto uses `SeqCst` everywhere).  Which accesses are points is decided by the class of the
//! atomic (derived from the file that creates it) and the harness' filter:
//!   * control flags (`is_closed`, `max_cost`): always;
//!   * metrics stripes / histogram counters: only if the harness enabled the class, and then a run
//!     of consecutive metrics accesses by one task to DIFFERENT atomics (the 256-stripe loops of
//!     `get` / `clear`) is one point, not 256; a second access to the atomic touched last (a
//!     load followed by a store: a non-atomic read-modify-write) is a point of its own.

pub use std::sync::atomic::Ordering;

use crate::kernel;
use crate::world::{with_world, CLASS_CTL, CLASS_HIST, CLASS_METRICS};

fn class_of(loc: &std::panic::Location<'_>) -> u8 {
    let f = loc.file();
    if f.ends_with("metrics.rs") {
        CLASS_METRICS
    } else if f.ends_with("histogram.rs") {
        CLASS_HIST
    } else {
        CLASS_CTL
    }
}

#[inline]
fn access(class: u8, addr: usize) {
    if !kernel::in_model() {
        return;
    }
    let go = with_world(|w| {
        if w.filter.atomic_classes & class == 0 {
            return false;
        }
        if class == CLASS_CTL {
            return true;
        }
        // coalesce consecutive metrics accesses of one task to different atomics
        let me = kernel::me();
        if w.last_metrics_task == Some(me) && w.last_metrics_addr != addr {
            w.last_metrics_addr = addr;
            false
        } else {
            true
        }
    });
    if go {
        kernel::point();
        if class != CLASS_CTL {
            let me = kernel::me();
            with_world(|w| {
                w.last_metrics_task = Some(me);
                w.last_metrics_addr = addr;
            });
        }
    }
}

macro_rules! atomic_int {
    ($name:ident, $std:ty, $t:ty) => {
        pub struct $name {
            v: $std,
            class: u8,
        }
        impl $name {
            #[track_caller]
            pub fn new(v: $t) -> Self {
                $name { v: <$std>::new(v), class: class_of(std::panic::Location::caller()) }
            }
            pub fn load(&self, _o: Ordering) -> $t {
                access(self.class, &self.v as *const _ as usize);
                self.v.load(Ordering::SeqCst)
            }
            pub fn store(&self, v: $t, _o: Ordering) {
                access(self.class, &self.v as *const _ as usize);
                self.v.store(v, Ordering::SeqCst)
            }
            pub fn swap(&self, v: $t, _o: Ordering) -> $t {
                access(self.class, &self.v as *const _ as usize);
                self.v.swap(v, Ordering::SeqCst)
            }
            pub fn compare_exchange(&self, c: $t, n: $t, _s: Ordering, _f: Ordering) -> Result<$t, $t> {
                access(self.class, &self.v as *const _ as usize);
                self.v.compare_exchange(c, n, Ordering::SeqCst, Ordering::SeqCst)
            }
            pub fn compare_exchange_weak(&self, c: $t, n: $t, _s: Ordering, _f: Ordering) -> Result<$t, $t> {
                access(self.class, &self.v as *const _ as usize);
                self.v.compare_exchange(c, n, Ordering::SeqCst, Ordering::SeqCst)
            }
            pub fn fetch_update<F: FnMut($t) -> Option<$t>>(&self, _s: Ordering, _f: Ordering, f: F) -> Result<$t, $t> {
                access(self.class, &self.v as *const _ as usize);
                self.v.fetch_update(Ordering::SeqCst, Ordering::SeqCst, f)
            }
            pub fn get_mut(&mut self) -> &mut $t {
                self.v.get_mut()
            }
            pub fn into_inner(self) -> $t {
                self.v.into_inner()
            }
        }
        impl Default for $name {
            #[track_caller]
            fn default() -> Self {
                $name { v: <$std>::default(), class: class_of(std::panic::Location::caller()) }
            }
        }
        impl From<$t> for $name {
            #[track_caller]
            fn from(v: $t) -> Self {
                $name { v: <$std>::new(v), class: class_of(std::panic::Location::caller()) }
            }
        }
        impl std::fmt::Debug for $name {
            fn fmt(&self, f: &mut std::fmt::Formatter<'_>) -> std::fmt::Result {
                std::fmt::Debug::fmt(&self.v, f)
            }
        }
    };
}
macro_rules! atomic_arith {
    ($name:ident, $t:ty) => {
        impl $name {
            pub fn fetch_add(&self, v: $t, _o: Ordering) -> $t {
                access(self.class, &self.v as *const _ as usize);
                self.v.fetch_add(v, Ordering::SeqCst)
            }
            pub fn fetch_sub(&self, v: $t, _o: Ordering) -> $t {
                access(self.class, &self.v as *const _ as usize);
                self.v.fetch_sub(v, Ordering::SeqCst)
            }
            pub fn fetch_max(&self, v: $t, _o: Ordering) -> $t {
                access(self.class, &self.v as *const _ as usize);
                self.v.fetch_max(v, Ordering::SeqCst)
            }
            pub fn fetch_min(&self, v: $t, _o: Ordering) -> $t {
                access(self.class, &self.v as *const _ as usize);
                self.v.fetch_min(v, Ordering::SeqCst)
            }
            pub fn fetch_and(&self, v: $t, _o: Ordering) -> $t {
                access(self.class, &self.v as *const _ as usize);
                self.v.fetch_and(v, Ordering::SeqCst)
            }
            pub fn fetch_or(&self, v: $t, _o: Ordering) -> $t {
                access(self.class, &self.v as *const _ as usize);
                self.v.fetch_or(v, Ordering::SeqCst)
            }
        }
    };
}
atomic_int!(AtomicBool, std::sync::atomic::AtomicBool, bool);
atomic_int!(AtomicI64, std::sync::atomic::AtomicI64, i64);
atomic_int!(AtomicU64, std::sync::atomic::AtomicU64, u64);
atomic_int!(AtomicUsize, std::sync::atomic::AtomicUsize, usize);
atomic_int!(AtomicI32, std::sync::atomic::AtomicI32, i32);
atomic_int!(AtomicU32, std::sync::atomic::AtomicU32, u32);
atomic_int!(AtomicIsize, std::sync::atomic::AtomicIsize, isize);
atomic_arith!(AtomicI64, i64);
atomic_arith!(AtomicU64, u64);
atomic_arith!(AtomicUsize, usize);
atomic_arith!(AtomicI32, i32);
atomic_arith!(AtomicU32, u32);
atomic_arith!(AtomicIsize, isize);
impl AtomicBool {
    pub fn fetch_and(&self, v: bool, _o: Ordering) -> bool {
        access(self.class, &self.v as *const _ as usize);
        self.v.fetch_and(v, Ordering::SeqCst)
    }
    pub fn fetch_or(&self, v: bool, _o: Ordering) -> bool {
        access(self.class, &self.v as *const _ as usize);
        self.v.fetch_or(v, Ordering::SeqCst)
    }
    pub fn fetch_xor(&self, v: bool, _o: Ordering) -> bool {
        access(self.class, &self.v as *const _ as usize);
        self.v.fetch_xor(v, Ordering::SeqCst)
    }
}
pub fn fence(_o: Ordering) {}
