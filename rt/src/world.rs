//! Per-explorer (= per OS thread) state: virtual clock, time waiters, filter configuration,
//! violation log, worker registry.

use crate::kernel;
use crate::sched::Mode;
use std::cell::RefCell;
use std::rc::Rc;
use std::task::Waker;
use std::time::Duration;

/// 2023-11-14 22:13:20 UTC; any fixed origin will do, it only has to be far from 0.
pub const E0_NS: u128 = 1_700_000_000u128 * 1_000_000_000;

#[derive(Clone, Copy, PartialEq, Eq, Debug)]
pub enum Sel {
    Waiting,
    Op(usize),
    Aborted,
}

/// State of one blocked `select!` / blocking channel operation.
pub struct SelState {
    pub task: usize,
    pub selected: std::cell::Cell<Sel>,
}

pub enum TimeWaiter {
    Select { deadline: u128, st: Rc<SelState> },
    Async { deadline: u128, waker: Waker, id: u64 },
}

pub const CLASS_CTL: u8 = 1; // is_closed flags, max_cost
pub const CLASS_METRICS: u8 = 2; // the 11 x 256 striped counters
pub const CLASS_HIST: u8 = 4; // histogram counters

#[derive(Clone, Debug)]
pub struct Filter {
    /// shard indices (0..256) of `store.rs` locks that are scheduling points; `None` = all of them
    pub loud_shards: Option<Vec<usize>>,
    /// which classes of atomics are scheduling points
    pub atomic_classes: u8,
}
impl Default for Filter {
    fn default() -> Self {
        Filter { loud_shards: None, atomic_classes: CLASS_CTL }
    }
}

pub struct World {
    pub now_ns: u128,
    pub phase_ns: u128,
    pub time_waiters: Vec<TimeWaiter>,
    pub next_timer_id: u64,
    pub mode: Mode,
    pub settle_driver: Option<usize>,
    pub quiescent: bool,
    pub cur_violations: Vec<(String, String)>,
    pub store_locks_created: usize,
    pub filter: Filter,
    pub last_metrics_task: Option<usize>,
    /// address of the metrics atomic that task touched last (a second access to the SAME atomic is a point)
    pub last_metrics_addr: usize,
    pub workers_spawned: usize,
    pub workers_finished: usize,
    pub points: u64,
    /// quiet shard locks that were found non-empty / contended (premise check of the filter)
    pub quiet_contended: u64,
    /// select! calls that found >1 arm ready
    pub select_ties: u64,
}

impl World {
    fn new() -> Self {
        World {
            now_ns: E0_NS,
            phase_ns: 0,
            time_waiters: Vec::new(),
            next_timer_id: 0,
            mode: Mode::Explore,
            settle_driver: None,
            quiescent: false,
            cur_violations: Vec::new(),
            store_locks_created: 0,
            filter: Filter::default(),
            last_metrics_task: None,
            last_metrics_addr: 0,
            workers_spawned: 0,
            workers_finished: 0,
            points: 0,
            quiet_contended: 0,
            select_ties: 0,
        }
    }
    /// Reset everything that belongs to one execution; configuration (`filter`, `phase_ns`) stays.
    pub fn begin_execution(&mut self) {
        self.now_ns = E0_NS + self.phase_ns;
        self.time_waiters.clear();
        self.next_timer_id = 0;
        self.mode = Mode::Explore;
        self.settle_driver = None;
        self.quiescent = false;
        self.cur_violations.clear();
        self.store_locks_created = 0;
        self.last_metrics_task = None;
        self.workers_spawned = 0;
        self.workers_finished = 0;
    }
}

thread_local! {
    static WORLD: RefCell<World> = RefCell::new(World::new());
}

#[inline]
pub fn with_world<R>(f: impl FnOnce(&mut World) -> R) -> R {
    WORLD.with(|w| f(&mut w.borrow_mut()))
}

#[inline]
pub(crate) fn count_point() {
    with_world(|w| {
        w.points += 1;
        w.last_metrics_task = None;
    });
}

pub fn now_ns() -> u128 {
    with_world(|w| w.now_ns)
}

/// Move the virtual clock forward and wake everything whose deadline has been reached.
pub fn advance(d: Duration) {
    let due: Vec<TimeWaiter> = with_world(|w| {
        w.now_ns += d.as_nanos();
        let now = w.now_ns;
        let mut due = Vec::new();
        let mut keep = Vec::new();
        for tw in w.time_waiters.drain(..) {
            let dl = match &tw {
                TimeWaiter::Select { deadline, .. } => *deadline,
                TimeWaiter::Async { deadline, .. } => *deadline,
            };
            if dl <= now {
                due.push(tw)
            } else {
                keep.push(tw)
            }
        }
        w.time_waiters = keep;
        due
    });
    for tw in due {
        match tw {
            TimeWaiter::Select { st, .. } => {
                if st.selected.get() == Sel::Waiting {
                    st.selected.set(Sel::Aborted);
                    kernel::unblock(st.task);
                }
            }
            TimeWaiter::Async { waker, .. } => waker.wake(),
        }
    }
}

/// Record an oracle failure for the running execution (the execution continues).
pub fn violation(kind: &str, msg: String) {
    with_world(|w| w.cur_violations.push((kind.to_string(), msg)));
}

/// Yield until every other task is blocked (quiescent point).
pub fn settle() {
    if !kernel::in_model() {
        return;
    }
    let me = kernel::me();
    with_world(|w| {
        w.settle_driver = Some(me);
        w.quiescent = false;
    });
    loop {
        kernel::yield_now();
        if with_world(|w| w.quiescent) {
            break;
        }
    }
    with_world(|w| {
        w.settle_driver = None;
        w.quiescent = false;
    });
}

/// Everything from here on is scheduled deterministically (no new DFS levels): building a
/// pre-state.  Ends with `explore_mode()`.
pub fn setup_mode() {
    with_world(|w| w.mode = Mode::Setup);
}
pub fn explore_mode() {
    with_world(|w| w.mode = Mode::Explore);
}
/// Everything from here on is teardown and is scheduled deterministically.
pub fn finish_mode() {
    with_world(|w| w.mode = Mode::Finish);
}
