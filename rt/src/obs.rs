//! Unlock observers: the verification facade registers a closure for the address of the data a
//! `Mutex` protects (the policy state); the closure runs at every unlock of that mutex, *while the
//! lock is still held*, i.e. it sees the state exactly as every policy mutation left it.

use std::cell::RefCell;
use std::rc::Rc;

thread_local! {
    static OBS: RefCell<Vec<(usize, Rc<dyn Fn()>)>> = const { RefCell::new(Vec::new()) };
}

pub fn register(addr: *const (), f: Rc<dyn Fn()>) {
    OBS.with(|o| o.borrow_mut().push((addr as usize, f)));
}
pub fn clear() {
    OBS.with(|o| o.borrow_mut().clear());
}
#[inline]
pub fn on_unlock(addr: *const ()) {
    let f = OBS.with(|o| {
        let o = o.borrow();
        if o.is_empty() {
            return None;
        }
        o.iter().find(|(a, _)| *a == addr as usize).map(|(_, f)| f.clone())
    });
    if let Some(f) = f {
        if !std::thread::panicking() {
            f();
        }
    }
}
