//! The four primitives everything else is built from.

use shuttle_engine::runtime::execution::ExecutionState;
use shuttle_engine::runtime::task::TaskId;
use shuttle_engine::runtime::thread as ethread;
use std::cell::RefCell;

/// Are we inside a model execution (a shuttle task)?  Outside (plain unit tests of the shims,
/// teardown of an execution, unwinding) every primitive degrades to "do nothing".
#[inline]
pub fn in_model() -> bool {
    if std::thread::panicking() {
        return false;
    }
    matches!(
        ExecutionState::try_with(|s| s.try_current().is_some() && !s.in_cleanup() && !s.is_finished()),
        Ok(true)
    )
}

#[inline]
pub fn me() -> usize {
    ExecutionState::with(|s| usize::from(s.current().id()))
}

/// A scheduling point: the scheduler may switch to another runnable task here.  The current task
/// stays runnable, so switching away costs one preemption.
#[inline]
#[track_caller]
pub fn point() {
    if in_model() {
        crate::world::count_point();
        ethread::switch();
    }
}

/// A voluntary yield: the scheduler prefers any other runnable task; switching is free.
#[inline]
pub fn yield_now() {
    if in_model() {
        shuttle_engine::thread_support::yield_now();
    }
}

/// Block the current task until somebody calls `unblock(me)`.  Callers always re-check their
/// condition in a loop.
#[inline]
pub fn block() {
    if !in_model() {
        panic!("stretto-verif-rt: blocking operation outside of a model execution would block forever");
    }
    ExecutionState::with(|s| s.current_mut().block(false));
    ethread::switch();
}

#[inline]
pub fn unblock(task: usize) {
    let _ = ExecutionState::try_with(|s| {
        if let Some(t) = s.try_get(TaskId::from(task)) {
            if !t.finished() {
                s.get_mut(TaskId::from(task)).unblock();
            }
        }
    });
}

/// Interior-mutable cell that claims `Send + Sync`.  Sound under the engine's discipline: all
/// tasks of one execution are coroutines on one OS thread and no borrow is held across a
/// scheduling point (every `with` closure is straight-line code).
pub struct Shared<T>(RefCell<T>);
unsafe impl<T> Send for Shared<T> {}
unsafe impl<T> Sync for Shared<T> {}
impl<T> Shared<T> {
    pub const fn new(t: T) -> Self {
        Shared(RefCell::new(t))
    }
    #[inline]
    pub fn with<R>(&self, f: impl FnOnce(&mut T) -> R) -> R {
        f(&mut self.0.borrow_mut())
    }
    pub fn into_inner(self) -> T {
        self.0.into_inner()
    }
}
impl<T: Default> Default for Shared<T> {
    fn default() -> Self {
        Shared::new(T::default())
    }
}
