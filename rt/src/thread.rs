//! `std::thread::{spawn, JoinHandle}` look-alikes: the spawned closure becomes a scheduler task.
//! Workers register themselves so that a harness can tell whether every background worker has
//! terminated (C12) without relying on OS thread counts.

use crate::world::with_world;

pub use shuttle::thread::JoinHandle;

struct Exit;
impl Drop for Exit {
    fn drop(&mut self) {
        if !std::thread::panicking() {
            with_world(|w| w.workers_finished += 1);
        }
    }
}

pub fn spawn<F, T>(f: F) -> JoinHandle<T>
where
    F: FnOnce() -> T + Send + 'static,
    T: Send + 'static,
{
    with_world(|w| w.workers_spawned += 1);
    shuttle::thread::spawn(move || {
        let _e = Exit;
        f()
    })
}

/// (spawned, finished) background workers of the running execution (sync threads and async tasks
/// spawned through `spawn_task`).
pub fn workers() -> (usize, usize) {
    with_world(|w| (w.workers_spawned, w.workers_finished))
}

/// Spawner for `AsyncCacheBuilder::finalize`: the future becomes a scheduler task.
pub fn spawn_task(fut: std::pin::Pin<Box<dyn std::future::Future<Output = ()> + Send + 'static>>) {
    with_world(|w| w.workers_spawned += 1);
    let _ = shuttle::future::spawn(async move {
        let _e = Exit;
        fut.await
    });
}

pub fn yield_now() {
    crate::kernel::yield_now();
}
