//! Runs the scenarios of DESIGN appendix A against the REAL crates with real threads and prints
//! one line per scenario: `name = outcome`.  `./check setup` compares the lines with the table the
//! models are built to (harness/src/conformance.rs: EXPECTED_REAL).
use crossbeam_channel::{bounded, select, tick, unbounded, TryRecvError};
use std::sync::atomic::{AtomicBool, AtomicUsize, Ordering};
use std::sync::Arc;
use std::thread;
use std::time::{Duration, Instant};

fn ms(n: u64) -> Duration {
    Duration::from_millis(n)
}

fn main() {
    // 1. select among simultaneously ready arms: both outcomes occur
    {
        let (mut a, mut b) = (0, 0);
        for _ in 0..2000 {
            let (ta, ra) = unbounded::<u32>();
            let (tb, rb) = unbounded::<u32>();
            ta.send(1).unwrap();
            tb.send(2).unwrap();
            select! { recv(ra) -> _ => a += 1, recv(rb) -> _ => b += 1 }
        }
        println!("select_ready_both_arms_fire = {}", a > 0 && b > 0);
    }
    // 2. a thread blocked in select is committed to the arm made ready first
    {
        let mut first = 0;
        let n = 40;
        for _ in 0..n {
            let (ta, ra) = unbounded::<u32>();
            let (tb, rb) = unbounded::<u32>();
            let h = thread::spawn(move || {
                select! { recv(ra) -> _ => 'a', recv(rb) -> _ => 'b' }
            });
            thread::sleep(ms(25));
            ta.send(1).unwrap();
            let _ = tb.send(2);
            if h.join().unwrap() == 'a' {
                first += 1;
            }
        }
        println!("select_blocked_commits_to_first_ready_arm = {}", first == n);
    }
    // 3. zero-capacity send returns at once when a receiver is already blocked in select
    {
        let (tx, rx) = bounded::<u32>(0);
        let (_tk, rk) = unbounded::<u32>();
        let h = thread::spawn(move || {
            select! { recv(rx) -> m => m.unwrap(), recv(rk) -> _ => 0 }
        });
        thread::sleep(ms(20));
        let t0 = Instant::now();
        tx.send(5).unwrap();
        let quick = t0.elapsed() < ms(15);
        println!("rendezvous_send_returns_at_once_to_blocked_receiver = {}", quick && h.join().unwrap() == 5);
    }
    // 4. tick cadence: next delivery = receipt + d, no burst of missed ticks
    {
        let t = tick(ms(200));
        thread::sleep(ms(650));
        let first = t.try_recv().is_ok();
        let burst = t.try_recv().is_ok();
        thread::sleep(ms(60));
        let early = t.try_recv().is_ok();
        thread::sleep(ms(200));
        let later = t.try_recv().is_ok();
        println!("tick_next_is_receipt_plus_d = {}", first && !burst && !early && later);
        if !(first && !burst && !early && later) {
            println!("#   tick detail: first {} burst {} early {} later {}", first, burst, early, later);
        }
    }
    // 5. last receiver dropped while a sender lives: the UNBOUNDED (list) flavour discards the
    //    buffered messages at once (destructors run); the BOUNDED (array) flavour keeps them until
    //    the channel itself is freed; sending fails in both
    {
        struct Flag(Arc<AtomicBool>);
        impl Drop for Flag {
            fn drop(&mut self) {
                self.0.store(true, Ordering::SeqCst);
            }
        }
        let f = Arc::new(AtomicBool::new(false));
        let (tx, rx) = unbounded::<Flag>();
        tx.send(Flag(f.clone())).unwrap();
        drop(rx);
        let dropped = f.load(Ordering::SeqCst);
        let fails = tx.send(Flag(Arc::new(AtomicBool::new(false)))).is_err();
        println!("crossbeam_unbounded_receiver_drop_discards_buffered = {}", dropped && fails);
        let f = Arc::new(AtomicBool::new(false));
        let (tx, rx) = bounded::<Flag>(4);
        tx.send(Flag(f.clone())).unwrap();
        drop(rx);
        let kept = !f.load(Ordering::SeqCst);
        let fails = tx.send(Flag(Arc::new(AtomicBool::new(false)))).is_err();
        drop(tx);
        let freed = f.load(Ordering::SeqCst);
        println!("crossbeam_bounded_receiver_drop_keeps_buffered_until_freed = {}", kept && fails && freed);
    }
    // 6. last sender dropped: buffered messages stay receivable, then Disconnected
    {
        let (tx, rx) = bounded::<u32>(4);
        tx.send(1).unwrap();
        drop(tx);
        println!("crossbeam_sender_drop_keeps_buffered = {}", rx.try_recv() == Ok(1) && rx.try_recv() == Err(TryRecvError::Disconnected));
    }
    // 7. parking_lot RwLock: a waiting writer blocks new readers; read_recursive passes
    {
        let l = Arc::new(parking_lot::RwLock::new(0u32));
        let g = l.read();
        let l2 = l.clone();
        let w = thread::spawn(move || {
            *l2.write() += 1;
        });
        thread::sleep(ms(50));
        let blocked = l.try_read().is_none();
        let rec = l.try_read_recursive().is_some();
        drop(g);
        w.join().unwrap();
        println!("rwlock_waiting_writer_blocks_new_readers = {}", blocked && rec);
    }
    // 8. wg::WaitGroup: dropping a clone without done() does not release waiters
    {
        let wg = wg::WaitGroup::new();
        let c = wg.add(1);
        drop(c);
        let released = Arc::new(AtomicBool::new(false));
        let (r2, w2) = (released.clone(), wg.clone());
        thread::spawn(move || {
            w2.wait();
            r2.store(true, Ordering::SeqCst);
        });
        thread::sleep(ms(80));
        let hung = !released.load(Ordering::SeqCst);
        wg.done();
        thread::sleep(ms(30));
        println!("waitgroup_has_no_drop_side_effect = {}", hung && released.load(Ordering::SeqCst));
    }
    // 9. async-channel: a closed channel keeps its queued messages until they are received
    {
        let dropped = Arc::new(AtomicUsize::new(0));
        struct D(Arc<AtomicUsize>);
        impl Drop for D {
            fn drop(&mut self) {
                self.0.fetch_add(1, Ordering::SeqCst);
            }
        }
        let (tx, rx) = async_channel::bounded::<D>(4);
        tx.try_send(D(dropped.clone())).unwrap();
        rx.close();
        let kept = dropped.load(Ordering::SeqCst) == 0;
        let refuses = tx.try_send(D(dropped.clone())).is_err();
        let drained = rx.try_recv().is_ok();
        println!("async_channel_close_keeps_queued_messages = {}", kept && refuses && drained);
    }
    // 10. async-io Timer::interval catches up (when += period)
    {
        use futures::StreamExt;
        let n = futures::executor::block_on(async {
            let mut t = async_io::Timer::interval(ms(20));
            thread::sleep(ms(110));
            let mut n = 0;
            let t0 = Instant::now();
            while t0.elapsed() < ms(15) {
                if futures::future::poll_immediate(t.next()).await.is_some() {
                    n += 1;
                } else {
                    break;
                }
            }
            n
        });
        println!("async_io_interval_catches_up = {}", n >= 3);
    }
}
